"""Shared infrastructure: solver wrapper, evidence, findings, exit codes."""
from __future__ import annotations

import hashlib
import json
import os
import sys
import time
import warnings

import z3

warnings.filterwarnings("ignore")

VERIF = os.path.dirname(os.path.dirname(os.path.abspath(__file__)))
EXIT_OK, EXIT_VIOLATION, EXIT_HARNESS = 0, 1, 3
SEED = int(os.environ.get("VERIF_SEED", "0") or 0)
JOBS = int(os.environ.get("VERIF_JOBS", "0") or 0) or min(16, os.cpu_count() or 4)


class HarnessError(Exception):
    """The machinery itself is wrong / cannot run (exit code 3). Never a verdict."""


class Check:
    """Book-keeping for one run of one property check."""

    def __init__(self, pid, tier, level="other"):
        self.pid, self.tier, self.level = pid, tier, level
        self.t0 = time.time()
        self.obligations = 0
        self.discharged = 0
        self.inconclusive = []
        self.samples = []
        self.queries = 0
        self.nontrivial = set()
        self.solver_time = 0.0
        self.functions = set()
        self.not_encoded = {}
        self.bounds = {}
        self.stubs = []
        self.assumptions = []
        self.violations = []      # (key, what, replay_path)
        self.known_hits = []
        self.extra = {}
        self.explanation = ""
        self.rule = ""
        kf = json.load(open(os.path.join(VERIF, "known_findings.json")))
        self.known = [f for f in kf.get("findings", []) if f["property"] == pid]

    # -- solving -------------------------------------------------------------------
    def solve(self, constraints, timeout_s=60, want_model=True):
        s = z3.Solver()
        s.set("timeout", int(timeout_s * 1000))
        for c in constraints:
            if c is True:
                continue
            if c is False:
                c = z3.BoolVal(False)
            s.add(c)
        t = time.time()
        r = s.check()
        self.solver_time += time.time() - t
        self.queries += 1
        return str(r), (s.model() if r == z3.sat else None)

    def oblige(self, name, constraints, timeout_s=60, sample=None):
        """One obligation: `constraints` (the negated property) must be unsat.
        returns ("unsat"|"sat"|"unknown", model)"""
        self.obligations += 1
        r, m = self.solve(constraints, timeout_s)
        if r == "unsat":
            self.discharged += 1
        elif r == "unknown":
            self.inconclusive.append(name)
        if sample is not None and len(self.samples) < 12:
            self.samples.append({"obligation": name, "verdict": r, **sample})
        return r, m

    def add_discharged(self, name=None):
        self.obligations += 1
        self.discharged += 1

    def add_inconclusive(self, name):
        self.obligations += 1
        self.inconclusive.append(name)

    # -- findings ------------------------------------------------------------------
    def violation(self, key, what, replay):
        """A reproduced violation.  `key` identifies the specific failing object."""
        for f in self.known:
            if f["key"] == key:
                if key not in [k for k, _ in self.known_hits]:
                    self.known_hits.append((key, f.get("what", what)))
                    print(f"KNOWN-FINDING: property={self.pid} {f.get('what', what)}")
                return False
        d = os.path.join(VERIF, "replays", self.pid)
        os.makedirs(d, exist_ok=True)
        h = hashlib.sha1(json.dumps(key, sort_keys=True).encode()).hexdigest()[:12]
        path = os.path.join(d, f"{h}.json")
        with open(path, "w") as fh:
            json.dump({"property": self.pid, "key": key, "what": what, "replay": replay}, fh,
                      indent=1, default=str, ensure_ascii=False)
        self.violations.append((key, what, path))
        print(f"VIOLATION property={self.pid} replay={path}")
        print(f"  what: {what}")
        return True

    # -- evidence ------------------------------------------------------------------
    def _coverage_loss(self):
        """what this run could not encode / decide although the pinned tree's run could (coverage_baseline.json,
        written only by GSV_WRITE_BASELINE=1 runs on the clean tree).  Informational: the exit code is unchanged,
        an undecided obligation is neither a pass nor a violation -- but a change that silently moves code out of
        the encoder's reach should be seen."""
        path = os.path.join(VERIF, "coverage_baseline.json")
        cur = sorted({str(k) for k in self.not_encoded} | {str(x).split(": ")[0] for x in self.inconclusive})
        try:
            base = json.load(open(path))
        except (OSError, ValueError):
            base = {}
        if os.environ.get("GSV_WRITE_BASELINE") == "1":
            base.setdefault(self.pid, {})[self.tier] = cur
            with open(path, "w") as fh:
                json.dump(base, fh, indent=0, sort_keys=True, ensure_ascii=False)
            return []
        known = base.get(self.pid, {}).get(self.tier)
        if known is None:
            return []
        known = set(known)
        return [k + (f" ({self.not_encoded[k]})" if k in self.not_encoded else "") for k in cur if k not in known]

    def finish(self):
        wall = time.time() - self.t0
        cov = {
            "explanation": self.explanation,
            "obligations": self.obligations,
            "discharged": self.discharged,
            "inconclusive": len(self.inconclusive),
            "inconclusive_names": self.inconclusive[:40],
            "evaluations": max(self.queries, 1),
            "distinct_nontrivial": len(self.nontrivial),
            "rule": self.rule,
            "samples": self.samples[:12] or [{"note": "no obligation recorded a sample"}],
            "functions_encoded": sorted(self.functions)[:400],
            "functions_encoded_count": len(self.functions),
            "not_encoded": self.not_encoded,
            "bounds": self.bounds,
            "stubs": self.stubs,
            "solver_time_s": round(self.solver_time, 3),
            "known_findings_hit": [w for _, w in self.known_hits],
            "spurious_models": list(SPURIOUS)[:10],
            "solver": f"z3 {z3.get_version_string()}",
        }
        cov.update(self.extra)
        cov["coverage_loss"] = self._coverage_loss()
        ev = {
            "property_id": self.pid,
            "tier": self.tier,
            "seed": SEED,
            "level": self.level,
            "coverage": cov,
            "assumptions": self.assumptions,
            "wall_s": round(wall, 2),
            "violations": len(self.violations),
        }
        os.makedirs(os.path.join(VERIF, "evidence"), exist_ok=True)
        with open(os.path.join(VERIF, "evidence", f"{self.pid}.json"), "w") as fh:
            json.dump(ev, fh, indent=1, default=str, ensure_ascii=False)
        # evidence/<id>.json holds the last run of either tier; a copy per tier is kept next to it
        os.makedirs(os.path.join(VERIF, "evidence_by_tier"), exist_ok=True)
        with open(os.path.join(VERIF, "evidence_by_tier", f"{self.pid}.{self.tier}.json"), "w") as fh:
            json.dump(ev, fh, indent=1, default=str, ensure_ascii=False)
        print(f"[{self.pid}/{self.tier}] obligations={self.obligations} discharged={self.discharged} "
              f"inconclusive={len(self.inconclusive)} queries={self.queries} "
              f"solver={self.solver_time:.1f}s wall={wall:.1f}s violations={len(self.violations)} "
              f"known={len(self.known_hits)}")
        if self.inconclusive:
            print("  inconclusive:", ", ".join(self.inconclusive[:10]))
        for what in cov["coverage_loss"][:20]:
            print(f"COVERAGE-LOSS property={self.pid} no longer decided (was decided on the pinned tree): {what}")
        if self.violations:
            return EXIT_VIOLATION
        if SPURIOUS:
            print(f"HARNESS-ERROR {self.pid}: {len(SPURIOUS)} solver model(s) did not reproduce on the real code (encoding no longer matches the code)")
            return EXIT_HARNESS
        return EXIT_OK


SPURIOUS = []      # models that did not reproduce on the real code (encoding or stub wrong)


FIELDS = ("obligations", "discharged", "inconclusive", "samples", "queries", "solver_time", "not_encoded", "violations", "known_hits", "extra")


def _run_part(args):
    """worker: run `fn(ck, item)` on a private Check and return its state"""
    pid, tier, level, fn, item = args
    import warnings
    warnings.filterwarnings("ignore")
    ck = Check(pid, tier, level)
    SPURIOUS.clear()
    try:
        fn(ck, item)
        err = None
    except HarnessError as e:
        err = f"HarnessError: {e}"
    except Exception as e:   # noqa: BLE001
        import traceback
        err = f"{type(e).__name__}: {e}\n{traceback.format_exc()[-800:]}"
    st = {k: getattr(ck, k) for k in FIELDS}
    st["nontrivial"] = [repr(x) for x in ck.nontrivial]
    st["functions"] = sorted(ck.functions)
    st["spurious"] = list(SPURIOUS)
    st["error"] = err
    return st


def run_parallel(ck, fn, items, jobs=None):
    """run fn(ck_i, item) for every item in forked worker processes and merge the results into ck.
    (every worker rebuilds its encodings from /repo; nothing is shared but the code)"""
    import multiprocessing
    jobs = jobs or min(JOBS, max(1, len(items)))
    args = [(ck.pid, ck.tier, ck.level, fn, it) for it in items]
    if jobs == 1 or len(items) <= 1:
        parts = [_run_part(a) for a in args]
    else:
        with multiprocessing.get_context("fork").Pool(jobs) as pool:
            parts = pool.map(_run_part, args, chunksize=1)
    seen_known = {repr(k) for k, _ in ck.known_hits}
    for it, st in zip(items, parts):
        if st["error"]:
            raise HarnessError(f"worker for {it} failed: {st['error']}")
        ck.obligations += st["obligations"]
        ck.discharged += st["discharged"]
        for name in st["inconclusive"]:
            if name in ck.inconclusive:
                ck.obligations -= 1        # the same obligation reported by several workers counts once
            else:
                ck.inconclusive.append(name)
        ck.samples += st["samples"]
        ck.queries += st["queries"]
        ck.solver_time += st["solver_time"]
        ck.not_encoded.update(st["not_encoded"])
        ck.violations += st["violations"]
        for k, w in st["known_hits"]:
            if repr(k) not in seen_known:
                seen_known.add(repr(k))
                ck.known_hits.append((k, w))
        for k, v in st["extra"].items():
            if isinstance(v, (int, float)) and isinstance(ck.extra.get(k, 0), (int, float)):
                ck.extra[k] = ck.extra.get(k, 0) + v
            elif isinstance(v, dict):
                ck.extra.setdefault(k, {}).update(v)
            elif isinstance(v, list):
                ck.extra.setdefault(k, []).extend(v)
            else:
                ck.extra[k] = v
        ck.nontrivial |= set(st["nontrivial"])
        ck.functions |= set(st["functions"])
        SPURIOUS.extend(st["spurious"])


def spurious(pid, what):
    """A solver model that does not reproduce on the real code: the encoding misrepresents the code.
    Recorded; the run continues (a *confirmed* violation elsewhere still counts), and ends with the
    reserved harness-error exit code if nothing else decided it."""
    print(f"SPURIOUS property={pid} {what}"[:1200])
    SPURIOUS.append(what[:300])


def model_dict(m):
    out = {}
    if m is None:
        return out
    for d in m.decls():
        if d.arity() == 0:
            out[str(d)] = str(m[d])
    return out
