"""Node-definition equivalence between two graphs built by the real loader (C04, C05)."""
from __future__ import annotations

import functools

import z3

from gsv import rulesym as R


def identity(f):
    """what a node callable computes, syntactically: code objects + closure constants + partialled params"""
    out = []
    while True:
        if isinstance(f, functools.partial):
            out.append(("partial", tuple(sorted((k, id(v)) for k, v in f.keywords.items()))))
            f = f.func
            continue
        code = getattr(f, "__code__", None)
        cl = []
        if getattr(f, "__closure__", None):
            for c in f.__closure__:
                try:
                    v = c.cell_contents
                except ValueError:
                    continue
                if hasattr(v, "pyfunc"):          # numpy.vectorize object
                    cl.append(("vectorize", identity(v.pyfunc), repr(v.otypes)))
                elif callable(v) and hasattr(v, "__code__"):
                    cl.append(identity(v))
                elif isinstance(v, (str, int, float, bool, type(None), tuple)):
                    cl.append(repr(v))
                elif isinstance(v, dict):
                    cl.append(repr(sorted((str(k), str(x)) for k, x in v.items())))
        out.append((code, tuple(cl)))
        if hasattr(f, "__wrapped__"):
            f = f.__wrapped__
            continue
        break
    return tuple(out)


def compare_node(ck, label, dag_a, dag_b, n):
    """obligation: node n has the same definition in both graphs.  returns None if equal, else text"""
    in_a, in_b = n in dag_a.funcs, n in dag_b.funcs
    if in_a != in_b:
        return f"{n} is computed in one configuration and a root/data column in the other"
    if not in_a:
        return None
    pa, pb = dag_a.parents(n), dag_b.parents(n)
    if identity(dag_a.funcs[n]) == identity(dag_b.funcs[n]) and pa == pb:
        return None
    if sorted(pa) != sorted(pb):
        return f"{n}: parents differ: {sorted(set(pa) ^ set(pb))[:6]}"
    # same parents, different callables: z3 decides equality of the two definitions for all parent values
    pre = []
    try:
        if dag_a.kind(n) in ("agg_group", "agg_pid", "grouping", "skipvec", "other"):
            raise R.Unsupported("whole-column node")
        syms = {p: dag_a.free_symbol(p) for p in pa}
        vals = []
        for d in (dag_a, dag_b):
            ctx = R.Ctx()
            with R.using(ctx):
                vals.append(R.call_value(d.funcs[n], [], dict(syms)))
        neq = z3.Not(R.values_equal(vals[0], vals[1]))
    except (R.Unsupported, R.PathEnd):
        # whole-column definitions: compare on symbolic columns of 2 rows
        try:
            from gsv import colsym
            N = 2
            cols = {}
            for p in pa:
                ty = dag_a.return_type(p) or float
                cols[p] = colsym.SymArray([R.sym_for(f"{p}[{i}]", ty) for i in range(N)], ty)
                if p.endswith("_id") or p.startswith("p_id"):
                    pre += [x.t >= (-1 if p.startswith("p_id_") else 0) for x in cols[p].e]
            vals = []
            for d in (dag_a, dag_b):
                ctx = R.Ctx()
                with R.using(ctx):
                    vals.append(R.call_value(d.funcs[n], [], {k: v._copy() for k, v in cols.items()}))
            neq = z3.Or([z3.Not(R.values_equal(x, y)) for x, y in zip(vals[0].e, vals[1].e)])
            syms = {f"{p}[{i}]": x for p, c in cols.items() for i, x in enumerate(c.e)}
        except (R.Unsupported, R.PathEnd, AttributeError) as e:
            return f"{n}: definitions differ syntactically and cannot be compared symbolically ({e})"
    r, m = ck.solve(pre + [neq], 60)
    if r == "unsat":
        return None
    if r == "sat":
        # replay: both real callables on the model's values
        import numpy
        try:
            kw = {}
            for p in pa:
                names = [k for k in syms if k == p or k.startswith(p + "[")]
                kw[p] = numpy.array([R.model_value(m, syms[k]) for k in names])
            oa = numpy.asarray(dag_a.funcs[n](**kw), dtype=float)
            ob = numpy.asarray(dag_b.funcs[n](**kw), dtype=float)
            if numpy.allclose(oa, ob, rtol=1e-9, atol=1e-12):
                from gsv import common
                common.spurious("defeq", f"{n}: model does not distinguish the real callables")
        except common_errors() as e:
            return f"{n}: definitions differ and one of them raises on the model ({type(e).__name__})"
    return f"{n}: definitions differ ({r}): {[(p, str(m.eval(s.t, model_completion=True))) for p, s in syms.items()][:6] if m is not None else ''}"


def common_errors():
    return (ValueError, TypeError, KeyError, IndexError, ZeroDivisionError, NotImplementedError)
