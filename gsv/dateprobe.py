"""Concolic exploration of the calendar through the real ``set_up_policy_environment``.

``DateProbe`` is a *concrete* ``datetime.date`` whose comparisons, ``.year`` and ``.replace``
record (operator, operand, outcome).  One run of the unmodified loader yields the environment
and the path condition over the date.  The conjunction of the recorded outcomes defines the
*region* of days on which the loader takes exactly the same decisions.  z3 is asked for a day
of the window outside all regions found so far; ``unsat`` means the regions cover the window.
"""
from __future__ import annotations

import datetime
import hashlib
import multiprocessing
import time

import numpy
import z3

D = datetime.date


class DateProbe(datetime.date):
    LOG = []

    def __new__(cls, y, m, d, off=0):
        self = super().__new__(cls, y, m, d)
        self._off = off
        return self

    def _plain(self):
        return D.fromordinal(self.toordinal())

    def _rec(self, op, other):
        if not isinstance(other, datetime.date) or isinstance(other, datetime.datetime):
            return NotImplemented
        res = getattr(D, op)(self, other)
        DateProbe.LOG.append((op, other.toordinal(), self._off, bool(res)))
        return res

    def __le__(self, o): return self._rec("__le__", o)
    def __lt__(self, o): return self._rec("__lt__", o)
    def __ge__(self, o): return self._rec("__ge__", o)
    def __gt__(self, o): return self._rec("__gt__", o)
    def __eq__(self, o): return self._rec("__eq__", o)
    def __ne__(self, o): return self._rec("__ne__", o)
    __hash__ = D.__hash__

    def _pin_year(self):
        y = D.year.__get__(self)
        a = D(y, 1, 1).toordinal() - self._off
        b = D(y, 12, 31).toordinal() - self._off
        DateProbe.LOG.append(("range", a, b, True))
        return y

    @property
    def year(self):
        return self._pin_year()

    @staticmethod
    def _is_date_stamp_read():
        """field reads made while building the exempt date stamp (`out_params["datum"] = ...`)"""
        import linecache
        import sys
        f = sys._getframe(2)
        line = linecache.getline(f.f_code.co_filename, f.f_lineno)
        return '"datum"' in line

    @property
    def month(self):
        # pins the month
        base = self._plain()
        if self._is_date_stamp_read():
            return base.month
        a = D(base.year, base.month, 1).toordinal() - self._off
        nxt = D(base.year + (base.month == 12), base.month % 12 + 1, 1).toordinal() - 1 - self._off
        DateProbe.LOG.append(("range", a, nxt, True))
        return base.month

    @property
    def day(self):
        base = self._plain()
        if self._is_date_stamp_read():
            return base.day
        DateProbe.LOG.append(("range", base.toordinal() - self._off, base.toordinal() - self._off, True))
        return base.day

    def replace(self, year=None, month=None, day=None):
        base = self._plain()
        kw = {k: v for k, v in dict(year=year, month=month, day=day).items() if v is not None}
        if month is not None and day is not None:
            # result does not depend on the day within the (pinned) year: a concrete date
            if year is None:
                self._pin_year()
            return base.replace(**kw)

        def outcome(d):
            try:
                return d.replace(**kw).toordinal() - d.toordinal()
            except ValueError:
                return "ValueError"
        mine = outcome(base)
        # `year=` is always computed from .year by the caller (year pinned already); the result's
        # distance to the base day must be the same for the whole region: pin the maximal run of
        # days around `base` with the same outcome.
        lo = hi = base
        one = datetime.timedelta(days=1)
        while lo.year == base.year and outcome(lo - one) == mine and (lo - one).year == base.year:
            lo -= one
        while outcome(hi + one) == mine and (hi + one).year == base.year:
            hi += one
        DateProbe.LOG.append(("range", lo.toordinal() - self._off, hi.toordinal() - self._off, True))
        if mine == "ValueError":
            raise ValueError("day is out of range for month")
        new = base.replace(**kw)
        return DateProbe(new.year, new.month, new.day, off=self._off + mine)

    def __sub__(self, other):
        if isinstance(other, datetime.timedelta):
            new = self._plain() - other
            return DateProbe(new.year, new.month, new.day, off=self._off - other.days)
        return D.__sub__(self, other)

    def __add__(self, other):
        if isinstance(other, datetime.timedelta):
            new = self._plain() + other
            return DateProbe(new.year, new.month, new.day, off=self._off + other.days)
        return NotImplemented

    def __reduce__(self):
        return (D, (self.year, self.month, self.day))


class Region:
    """interval [lo, hi] of ordinals minus excluded points"""

    def __init__(self, lo, hi, holes, rep, nops, fp=None):
        self.lo, self.hi, self.holes, self.rep, self.nops, self.fp = lo, hi, sorted(holes), rep, nops, fp

    def contains(self, o):
        return self.lo <= o <= self.hi and o not in self.holes

    def z3(self, o):
        return z3.And(o >= self.lo, o <= self.hi, *[o != h for h in self.holes])

    @property
    def first(self):
        o = self.lo
        while o in self.holes:
            o += 1
        return D.fromordinal(o)

    @property
    def last(self):
        o = self.hi
        while o in self.holes:
            o -= 1
        return D.fromordinal(o)

    def __repr__(self):
        return f"Region({self.first}..{self.last}{' minus %d' % len(self.holes) if self.holes else ''})"


def region_from_log(log, rep_ord):
    lo, hi = 1, 3652059
    holes = set()
    for op, c, off, res in log:
        if op == "range":
            lo, hi = max(lo, c), min(hi, off)
            continue
        c = c - off
        if op == "__le__":
            if res: hi = min(hi, c)
            else: lo = max(lo, c + 1)
        elif op == "__lt__":
            if res: hi = min(hi, c - 1)
            else: lo = max(lo, c)
        elif op == "__ge__":
            if res: lo = max(lo, c)
            else: hi = min(hi, c - 1)
        elif op == "__gt__":
            if res: lo = max(lo, c + 1)
            else: hi = min(hi, c)
        elif op == "__eq__":
            if res: lo, hi = max(lo, c), min(hi, c)
            else: holes.add(c)
        elif op == "__ne__":
            if res: holes.add(c)
            else: lo, hi = max(lo, c), min(hi, c)
    assert lo <= rep_ord <= hi and rep_ord not in holes, (lo, hi, rep_ord)
    return lo, hi, {h for h in holes if lo <= h <= hi}


# -- environment fingerprint ----------------------------------------------------------------
def canon(x, skip_datum=True):
    if isinstance(x, dict):
        return {repr(k): canon(v) for k, v in x.items() if not (skip_datum and k == "datum")}
    if isinstance(x, numpy.ndarray):
        return ["nd", list(x.shape), [canon(v) for v in x.ravel().tolist()]]
    if isinstance(x, (list, tuple)):
        return [canon(v) for v in x]
    if isinstance(x, (float, numpy.floating)):
        return float(x).hex()
    if isinstance(x, (bool, numpy.bool_)):
        return bool(x)
    if isinstance(x, (int, numpy.integer)):
        return int(x)
    if isinstance(x, (datetime.date, numpy.datetime64)):
        return str(x)
    if hasattr(x, "item") and not isinstance(x, str):
        try:
            return canon(x.item())
        except Exception:
            pass
    return repr(x)


def env_fingerprint(params, functions):
    import json
    fn = {k: f"{f.__module__}.{f.__qualname__}" for k, f in sorted(functions.items())}
    blob = json.dumps([canon(params), fn], sort_keys=True, default=repr)
    return hashlib.sha1(blob.encode()).hexdigest()


ORACLE = None     # optional callable(date_probe, params, functions) -> list of disagreement strings


def _probe_run(o):
    import warnings
    warnings.filterwarnings("ignore")
    import _gettsim.policy_environment as PE
    d = D.fromordinal(o)
    DateProbe.LOG = []
    err = None
    fp = None
    P = F = None
    try:
        P, F = PE.set_up_policy_environment(DateProbe(d.year, d.month, d.day))
        fp = env_fingerprint(P, F)
    except Exception as e:   # the loader failing for a date is an observation, not a crash
        err = f"{type(e).__name__}: {e}"[:200]
    extra = None
    if ORACLE is not None:
        # the oracle runs under the same recording date: its comparisons refine the region
        extra = ORACLE(DateProbe(d.year, d.month, d.day), P, F, err)
    log = list(DateProbe.LOG)
    lo, hi, holes = region_from_log(log, o)
    return o, lo, hi, sorted(holes), len(log), fp, err, extra


def _plain_run(o):
    import warnings
    warnings.filterwarnings("ignore")
    import _gettsim.policy_environment as PE
    d = D.fromordinal(o)
    try:
        P, F = PE.set_up_policy_environment(d)
        return o, env_fingerprint(P, F), None
    except Exception as e:
        return o, None, f"{type(e).__name__}: {e}"[:200]


def yaml_seed_dates():
    """Speed heuristic only: candidate boundary days from the YAML keys (coverage is decided by z3)."""
    import yaml
    from _gettsim.config import INTERNAL_PARAMS_GROUPS, RESOURCE_DIR
    out = set()

    def walk(x):
        if isinstance(x, dict):
            for k, v in x.items():
                if isinstance(k, datetime.date):
                    out.add(k)
                walk(v)
    for g in INTERNAL_PARAMS_GROUPS:
        walk(yaml.load((RESOURCE_DIR / "parameters" / f"{g}.yaml").read_text(encoding="utf-8"), Loader=yaml.CLoader))
    return out


def explore(lo, hi, jobs=16, check_endpoints=True, on_region=None):
    """Cover [lo, hi] (dates) with regions.  Returns (regions, stats)."""
    t0 = time.time()
    lo_o, hi_o = lo.toordinal(), hi.toordinal()
    o = z3.Int("o")
    cover = z3.Solver()
    cover.add(o >= lo_o, o <= hi_o)
    regions = []
    errors = []
    stats = {"probe_runs": 0, "coverage_queries": 0, "endpoint_replays": 0, "leaks": []}
    seeds = {d for d in yaml_seed_dates() if lo <= d <= hi} | {lo}
    for y in range(lo.year, hi.year + 1):
        for m, dd in ((1, 1), (1, 2), (3, 1), (2, 28)):
            seeds.add(D(y, m, dd))
        if y % 4 == 0 and (y % 100 != 0 or y % 400 == 0):
            seeds.add(D(y, 2, 29))
    seeds = sorted(d.toordinal() for d in seeds if lo <= d <= hi)
    pool = multiprocessing.get_context("fork").Pool(jobs)
    try:
        pending = seeds
        while True:
            todo = [x for x in pending if not any(r.contains(x) for r in regions)]
            if todo:
                # runs whose day falls into a region found by an earlier run of the same batch
                # are redundant but harmless
                for (oo, a, b, holes, nops, fp, err, extra) in pool.imap_unordered(_probe_run, todo, chunksize=1):
                    stats["probe_runs"] += 1
                    if any(r.contains(oo) for r in regions):
                        continue
                    r = Region(max(a, lo_o), min(b, hi_o), [h for h in holes if lo_o <= h <= hi_o], D.fromordinal(oo), nops, fp)
                    r.err = err
                    r.extra = extra
                    regions.append(r)
                    cover.add(z3.Not(r.z3(o)))
                    if on_region is not None and on_region(r):
                        stats["stopped_early"] = True
                        break
                if stats.get("stopped_early"):
                    break
            # the deciding step: is any day of the window outside every region?
            batch = []
            cover.push()
            for _ in range(jobs):
                stats["coverage_queries"] += 1
                if cover.check() != z3.sat:
                    break
                v = cover.model()[o].as_long()
                batch.append(v)
                # spread the picks of one batch (temporary, inside push/pop only)
                cover.add(z3.Or(o < v - 40, o > v + 40))
            cover.pop()
            if not batch:
                break
            pending = batch
        stats["coverage_verdict"] = "incomplete (stopped at the first violation)" if stats.get("stopped_early") else "unsat"
        if check_endpoints and not stats.get("stopped_early"):
            pts = sorted({r.first.toordinal() for r in regions} | {r.last.toordinal() for r in regions})
            plain = {}
            for oo, fp, err in pool.imap_unordered(_plain_run, pts, chunksize=2):
                plain[oo] = (fp, err)
                stats["endpoint_replays"] += 1
            for r in regions:
                for e in {r.first.toordinal(), r.last.toordinal()}:
                    fp, err = plain[e]
                    if fp != r.fp or (err is None) != (r.err is None):
                        stats["leaks"].append((str(D.fromordinal(e)), str(r)))
    finally:
        pool.terminate()
    regions.sort(key=lambda r: (r.lo, r.hi))
    stats["wall_s"] = round(time.time() - t0, 1)
    return regions, stats
