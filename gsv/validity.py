"""The valid-population predicate V (DESIGN 2.8), scalar part: documented ranges of inputs.

Used as precondition by every check; printed in evidence via `DESCRIPTION`.
"""
from __future__ import annotations

import z3

DESCRIPTION = [
    "unique p_id >= 0; hh_id >= 0; foreign keys in p_ids or -1, != own p_id (single-person slices: all pointers = -1)",
    "alter 0..100, behinderungsgrad 0..100, steuerklasse 1..5, mietstufe 1..7, months 1..12, days 1..31",
    "geburtsjahr 1900..2030, jahr_renteneintr 1950..2100, immobilie_baujahr_hh 1800..2030",
    "month counters (m_*, grundr_*zeiten, monate_elterngeldbezug) >= 0 and <= 12*60; arbeitsstunden_w 0..168",
    "money inputs >= 0 except eink_vermietung_m; counts 0..10 (children) / 1..20 (persons in a unit)",
    "kind => not rentner",
    "mietstufe within the levels defined in the Wohngeld rent table of the date; wohnfläche_hh >= 1 m2",
    "retirement not before age 20 (jahr_renteneintr >= geburtsjahr + 20) and not after age 100",
]

RANGES = {
    "alter": (0, 100),
    "behinderungsgrad": (0, 100),
    "steuerklasse": (1, 5),
    "mietstufe": (1, 7),
    "geburtsmonat": (1, 12),
    "geburtstag": (1, 31),
    "monat_renteneintr": (1, 12),
    "geburtsjahr": (1900, 2030),
    "jahr_renteneintr": (1950, 2100),
    "immobilie_baujahr_hh": (1800, 2030),
    "monate_elterngeldbezug": (0, 36),
    "grundr_zeiten": (0, 720),
    "grundr_bew_zeiten": (0, 720),
    "arbeitsstunden_w": (0, 168),
    "sozialv_pflicht_5j": (0, 60),
    "hh_id": (0, None),
    "p_id": (0, None),
}
FREE_SIGN = {"eink_vermietung_m"}
DYNAMIC = {}     # ranges that depend on the parameters of the date (set by `use_params`)


def use_params(P):
    """date-dependent documented ranges: the Mietstufen that exist in the rent table"""
    DYNAMIC.clear()
    try:
        t = P["wohngeld"]["max_miete"]

        def leaf_keys(x):
            if isinstance(x, dict) and x and all(not isinstance(v, dict) for v in x.values()):
                return [k for k in x if isinstance(k, int)]
            if isinstance(x, dict):
                for v in x.values():
                    ks = leaf_keys(v)
                    if ks:
                        return ks
            return []
        ks = leaf_keys(t)
        if ks:
            DYNAMIC["mietstufe"] = (min(ks), max(ks))
    except Exception:   # noqa: BLE001
        pass


def _documented():
    from _gettsim.config import TYPES_INPUT_VARIABLES
    return TYPES_INPUT_VARIABLES


def scalar(name, sym, single_person=True):
    """constraints on one input value"""
    t = sym.t
    if sym.ty is bool:
        return []
    if name.startswith("p_id_"):
        return [t == -1] if single_person else [t >= -1]
    if name == "wohnfläche_hh":
        return [t >= 1]
    if name in RANGES or name in DYNAMIC:
        lo, hi = DYNAMIC.get(name) or RANGES[name]
        cs = []
        if lo is not None:
            cs.append(t >= lo)
        if hi is not None:
            cs.append(t <= hi)
        return cs
    if name in FREE_SIGN:
        return []
    if name.startswith("anz_personen") or name.startswith("anz_erwachsene"):
        return [t >= 1, t <= 20] if name.startswith("anz_personen") else [t >= 0, t <= 20]
    if name.startswith("anz_") or "_anz_" in name:
        return [t >= 0, t <= 10]
    if name.startswith("m_") or name.startswith("y_"):
        return [t >= 0, t <= 720]
    if name in _documented():
        return [t >= 0]          # documented money / quantity inputs
    # a *computed* column: no sign is assumed (sign facts are proved, see C16)
    return []


def inputs(syms, single_person=True):
    cs = []
    for n, s in syms.items():
        cs += scalar(n.split("#")[0], s, single_person)
    if "kind" in syms and "rentner" in syms:
        cs.append(z3.Implies(syms["kind"].t, z3.Not(syms["rentner"].t)))
    if "jahr_renteneintr" in syms and "geburtsjahr" in syms:
        cs += [syms["jahr_renteneintr"].t >= syms["geburtsjahr"].t + 20, syms["jahr_renteneintr"].t <= syms["geburtsjahr"].t + 100]
    return cs
