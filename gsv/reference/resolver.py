"""Independent reference resolver for the parameter YAML dialect (oracle for C07 / C10 / C18).

Written from the property statement, GEP-3's description of ``deviation_from`` and the dialect
actually used in the files (``scalar``, nested value dicts, ``deviation_from: previous | g.p``,
``access_different_date: vorjahr | jahresanfang``, ``rounding``).  It shares no code with
``_gettsim.policy_environment``.  ``previous`` is resolved *structurally* (overlay on the
resolution of the preceding entry), not via "one day earlier".
"""
from __future__ import annotations

import copy
import datetime
import fractions
import math

import yaml

META_KEYS = ("note", "reference", "deviation_from", "access_different_date")
HEADER_KEYS = ("name", "description", "note", "reference", "type", "progressionsfaktor",
               "access_different_date", "reference_period", "unit")


class Missing:
    def __repr__(self):
        return "MISSING"


MISSING = Missing()


class RefError(Exception):
    pass


class Resolver:
    def __init__(self, yaml_dir):
        self.dir = yaml_dir
        self._raw = {}

    def raw(self, group):
        if group not in self._raw:
            text = (self.dir / f"{group}.yaml").read_text(encoding="utf-8")
            self._raw[group] = yaml.load(text, Loader=yaml.SafeLoader)
        return self._raw[group]

    def params_of(self, group):
        return [k for k in self.raw(group) if k != "rounding"]

    @staticmethod
    def entry_dates(spec):
        return sorted(k for k in spec if isinstance(k, datetime.date))

    def resolve(self, group, param, date, le=lambda a, b: a <= b):
        """value of group.param in force on `date` (MISSING if none).
        `le(entry_date, date)` is the only place the date is inspected."""
        spec = self.raw(group)[param]
        dates = self.entry_dates(spec)
        past = [d for d in dates if le(d, date)]
        if not past:
            first = spec[dates[0]]
            dev = first.get("deviation_from") if isinstance(first, dict) else None
            if dev and "." in dev:
                g, p = dev.split(".")
                return self.resolve(g, p, date, le)
            return MISSING
        return self._resolve_entry(group, param, past[-1], date, le)

    def _resolve_entry(self, group, param, entry_date, date, le):
        spec = self.raw(group)[param]
        entry = spec[entry_date]
        if "scalar" in entry:
            return math.inf if entry["scalar"] == "inf" else entry["scalar"]
        out = {}
        for k in ("type", "progressionsfaktor"):
            if k in spec:
                out[k] = spec[k]
        value_keys = [k for k in entry if k not in META_KEYS]
        dev = entry.get("deviation_from")
        if dev is None:
            for k in value_keys:
                out[k] = copy.deepcopy(entry[k])
            return out
        if dev == "previous":
            dates = self.entry_dates(spec)
            i = dates.index(entry_date)
            if i == 0:
                raise RefError(f"{group}.{param}: 'previous' on the first entry")
            base = self._resolve_entry(group, param, dates[i - 1], dates[i - 1], le)
        elif "." in dev:
            g, p = dev.split(".")
            base = self.resolve(g, p, date, le)
            if base is MISSING:
                raise RefError(f"{group}.{param}: deviates from missing {dev}")
        else:
            raise RefError(f"{group}.{param}: unknown deviation_from {dev!r}")
        out = copy.deepcopy(base)
        for k in value_keys:
            if isinstance(entry[k], dict):
                if k not in out:
                    raise RefError(f"{group}.{param}: deviation key {k!r} absent in base")
                overlay(out[k], entry[k])
            else:
                out[k] = copy.deepcopy(entry[k])
        return out

    def group(self, group, date, le=lambda a, b: a <= b):
        """all parameters of a group at `date`, incl. prior-date look-ups; piecewise not parsed"""
        out = {}
        raw = self.raw(group)
        for param in self.params_of(group):
            v = self.resolve(group, param, date, le)
            if v is not MISSING:
                out[param] = v
            add = raw[param].get("access_different_date")
            if add is not None and v is not MISSING:
                if add == "vorjahr":
                    try:
                        d2 = date.replace(year=date.year - 1)
                    except ValueError:
                        d2 = date.replace(year=date.year - 1, day=date.day - 1)
                    v2 = self.resolve(group, param, d2, le)
                    if v2 is not MISSING:
                        out[f"{param}_vorjahr"] = v2
                elif add == "jahresanfang":
                    d2 = date.replace(month=1, day=1)
                    v2 = self.resolve(group, param, d2, le)
                    if v2 is not MISSING:
                        out[f"{param}_jahresanfang"] = v2
                else:
                    raise RefError(f"{group}.{param}: access_different_date {add!r}")
        return out

    def rounding(self, group, date, le=lambda a, b: a <= b):
        raw = self.raw(group)
        out = {}
        for fname, spec in (raw.get("rounding") or {}).items():
            past = [d for d in self.entry_dates(spec) if le(d, date)]
            if past:
                e = spec[past[-1]]
                out[fname] = {k: v for k, v in e.items() if k not in ("note", "reference")}
        return out


def overlay(base, patch):
    for k, v in patch.items():
        if isinstance(v, dict):
            if k not in base or not isinstance(base[k], dict):
                raise RefError(f"deviation path {k!r} absent in base")
            overlay(base[k], v)
        else:
            base[k] = v


# -- piecewise schedules (exact rational reference) ----------------------------------------
def F(x):
    if isinstance(x, str):
        x = float(x)
    if x in (math.inf, -math.inf):
        return x
    return fractions.Fraction(x)


class Schedule:
    """Mathematical piecewise polynomial rebuilt from the raw YAML value (exact rationals over
    the stored doubles).  Interval k is [lower_k, upper_k); value = c_k + sum_p r_pk (x-lower_k)^p;
    the first interval (lower=-inf) is the constant c_0."""

    def __init__(self, value, name="?"):
        keys = sorted(k for k in value if isinstance(k, int))
        if keys != list(range(len(keys))):
            raise RefError(f"{name}: interval keys not 0..n-1")
        n = len(keys)
        typ = value.get("type", "piecewise_linear").split("_")[1]
        deg = {"linear": 1, "quadratic": 2, "cubic": 3}[typ]
        lower, upper = [None] * n, [None] * n
        for k in keys:
            iv = value[k]
            if "lower_threshold" in iv:
                lower[k] = F(iv["lower_threshold"])
            if "upper_threshold" in iv:
                upper[k] = F(iv["upper_threshold"])
        for k in keys:
            if lower[k] is None:
                lower[k] = upper[k - 1] if k > 0 else None
            if upper[k] is None:
                upper[k] = lower[k + 1] if k + 1 < n else None
        if None in lower or None in upper:
            raise RefError(f"{name}: threshold missing")
        if lower[0] != -math.inf or upper[-1] != math.inf:
            raise RefError(f"{name}: not defined on the whole real line")
        for k in range(n - 1):
            if not close(upper[k], lower[k + 1]):
                raise RefError(f"{name}: thresholds do not coincide at {k}")
            if not (lower[k] < upper[k]):
                raise RefError(f"{name}: thresholds not strictly increasing at {k}")
        names = ["rate_linear", "rate_quadratic", "rate_cubic"][:deg]
        rates = [[None] * n for _ in range(deg)]
        for k in keys:
            iv = value[k]
            for p, nm in enumerate(names):
                if nm in iv:
                    rates[p][k] = F(iv[nm])
                elif p == 0 and deg == 1 and "rate" in iv:
                    rates[p][k] = F(iv["rate"])
        if value.get("progressionsfaktor"):
            for k in keys:
                if rates[1][k] is None:
                    rates[1][k] = (rates[0][k + 1] - rates[0][k]) / (2 * (upper[k] - lower[k]))
        for p in range(deg):
            for k in keys:
                if rates[p][k] is None:
                    raise RefError(f"{name}: rate {names[p]} missing in interval {k}")
        given = [("intercept_at_lower_threshold" in value[k]) for k in keys]
        if not given[0]:
            raise RefError(f"{name}: first interval needs an intercept")
        icpt = [None] * n
        icpt[0] = F(value[0]["intercept_at_lower_threshold"])
        if all(given):
            for k in keys:
                icpt[k] = F(value[k]["intercept_at_lower_threshold"])
        elif sum(given) > 1:
            raise RefError(f"{name}: some but not all intercepts supplied")
        else:
            for k in range(1, n):
                if k == 1:
                    icpt[1] = icpt[0]     # first interval is the constant c_0
                else:
                    h = upper[k - 1] - lower[k - 1]
                    icpt[k] = icpt[k - 1] + sum(rates[p][k - 1] * h ** (p + 1) for p in range(deg))
        self.n, self.deg = n, deg
        self.lower, self.upper, self.rates, self.icpt = lower, upper, rates, icpt
        self.all_intercepts_given = all(given) and n > 1

    def thresholds(self):
        return [self.lower[0], *self.upper]

    def eval_exact(self, x):
        x = fractions.Fraction(x)
        for k in range(self.n):
            if (self.lower[k] == -math.inf or self.lower[k] <= x) and (self.upper[k] == math.inf or x < self.upper[k]):
                if k == 0:
                    return self.icpt[0]
                h = x - self.lower[k]
                return self.icpt[k] + sum(self.rates[p][k] * h ** (p + 1) for p in range(self.deg))
        raise RefError("no interval")


def close(a, b, rtol=1e-9):
    if a == b:
        return True
    if a in (math.inf, -math.inf) or b in (math.inf, -math.inf):
        return False
    return abs(a - b) <= rtol * max(1, abs(a), abs(b))
