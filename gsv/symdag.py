"""SymDAG -- the real dependency graph, evaluated symbolically.

The graph is built by the *real* loader (`load_and_check_functions`, `set_up_dag`,
`_round_and_partial_parameters_to_functions`) for a date and a configuration.  Node callables are
executed from source by rulesym (partial -> rounding wrapper -> vectorize wrapper -> rule;
rename wrapper -> aggregator / converter closure).
"""
from __future__ import annotations

import functools
import inspect

import z3

from gsv import gt
from gsv import rulesym as R

from _gettsim.config import DEFAULT_TARGETS, TYPES_INPUT_VARIABLES
from _gettsim.functions_loader import load_and_check_functions
from _gettsim.interface import _round_and_partial_parameters_to_functions, set_up_dag


class Dag:
    def __init__(self, date, targets=None, data_cols=None, rounding=True,
                 aggregate_by_group_specs=None, aggregate_by_p_id_specs=None, functions=None, params=None):
        self.date = date
        P, F = gt.env(date)
        self.params = P if params is None else params
        self.policy_functions = F if functions is None else functions
        self.targets = list(DEFAULT_TARGETS if targets is None else targets)
        self.data_cols = list(TYPES_INPUT_VARIABLES) if data_cols is None else list(data_cols)
        fno, fo = load_and_check_functions(
            functions_raw=self.policy_functions, targets=self.targets, data_cols=self.data_cols,
            aggregate_by_group_specs=aggregate_by_group_specs or {},
            aggregate_by_p_id_specs=aggregate_by_p_id_specs or {})
        self.all_functions = fno
        self.overridden = fo
        self.graph = set_up_dag(fno, self.targets, set(fo), "ignore")
        self.nodes = [n for n in self.graph.nodes]
        nec = {k: f for k, f in fno.items() if k in self.graph.nodes}
        self.raw_funcs = nec
        self.funcs = _round_and_partial_parameters_to_functions(nec, self.params, rounding)
        self.rounding = rounding

    # ------------------------------------------------------------------------------------
    def parents(self, n):
        f = self.funcs[n]
        return [a for a in inspect.signature(f).parameters if not a.endswith("_params")]

    def topo(self):
        import networkx as nx
        return [n for n in nx.topological_sort(self.graph)]

    def kind(self, n):
        if n not in self.funcs:
            return "input"
        f = self.raw_funcs[n]
        co = getattr(getattr(f, "__code__", None), "co_name", "")
        if n in self.policy_functions and self.policy_functions[n].__name__ == getattr(f, "__name__", None):
            pf = self.policy_functions[n]
            if gt.is_skipvec(pf):
                return "skipvec"
            if not self.parents(n):
                return "paramonly"
            return "rule"
        name = getattr(f, "__name__", "")
        if name.startswith("aggregate_by_group"):
            return "agg_group"
        if name.startswith("aggregate_by_p_id"):
            return "agg_pid"
        if name.endswith("_numpy"):
            return "grouping"
        if co == "wrapper_rename_arguments" or name == "func":
            return "timeconv"
        return "other"

    def rule_function(self, n):
        """the undecorated scalar python function behind rule node n"""
        return self.policy_functions[n]

    def return_type(self, n):
        t = self._return_type(n)
        if t in (float, int, bool):
            return t
        # numpy.ndarray[T] annotations of whole-column rules / groupings
        import typing
        f = self.raw_funcs.get(n)
        for src in (getattr(f, "__annotations__", {}).get("return") if f is not None else None,
                    self.policy_functions[n].__annotations__.get("return") if n in self.policy_functions else None):
            args = typing.get_args(src) if src is not None else ()
            if args and args[0] in (float, int, bool):
                return args[0]
        k = self.kind(n)
        if k == "timeconv":
            return float
        if k == "grouping":
            return int
        if k in ("agg_group", "agg_pid"):
            # aggregation of a source without declared type: inherit the source's type (count -> int)
            ps = [p for p in self.parents(n) if not p.endswith("_id") and not p.startswith("p_id")]
            if not ps:
                return int
            st = self.return_type(ps[0])
            return st
        return None

    def _return_type(self, n):
        if n in TYPES_INPUT_VARIABLES:
            return TYPES_INPUT_VARIABLES[n]
        f = self.raw_funcs.get(n)
        ann = getattr(f, "__annotations__", {}).get("return") if f is not None else None
        if ann in (float, int, bool):
            return ann
        if n in self.policy_functions:
            ann = self.policy_functions[n].__annotations__.get("return")
            if ann in (float, int, bool):
                return ann
        sig = None
        try:
            sig = inspect.signature(f).return_annotation
        except Exception:
            pass
        if sig in (float, int, bool):
            return sig
        return None

    def agg_spec(self, n):
        """(aggr kind, source col, group id / pointer col) for aggregation nodes, recovered from
        the closure of the real rename wrapper"""
        f = self.raw_funcs[n]
        cv = inspect.getclosurevars(f).nonlocals
        mapper = cv.get("mapper") or {v: k for k, v in (cv.get("reverse_mapper") or {}).items()}
        inner = f.__wrapped__
        src = inspect.getsource(inner)
        return mapper, inner

    # ------------------------------------------------------------------------------------
    def eval_scalar(self, n, frontier, cache, ctx, stop_at=()):
        """value of node n for one person.  `frontier`: {name: value} of free nodes.
        Nodes in `stop_at` or of cross-row kind must be in the frontier."""
        if n in cache:
            return cache[n]
        if n in frontier:
            cache[n] = frontier[n]
            return cache[n]
        k = self.kind(n)
        if k == "input" or n in stop_at or k in ("agg_group", "agg_pid", "grouping", "skipvec", "other"):
            raise R.Unsupported(f"frontier node {n} ({k}) has no value")
        kwargs = {p: self.eval_scalar(p, frontier, cache, ctx, stop_at) for p in self.parents(n)}
        old = ctx.where
        with R.using(ctx):
            try:
                v = R.call_value(self.funcs[n], [], kwargs)
            except R.PathEnd:
                v = None
        cache[n] = v
        return v

    def cone(self, targets, stop=lambda n: False):
        """nodes needed for targets, cut at nodes where stop(n) (those become frontier)"""
        seen, frontier, order = set(), set(), []

        def visit(n):
            if n in seen:
                return
            seen.add(n)
            k = self.kind(n)
            if k in ("input", "agg_group", "agg_pid", "grouping", "skipvec", "other") or stop(n):
                frontier.add(n)
                return
            for p in self.parents(n):
                visit(p)
            order.append(n)
        for t in targets:
            visit(t)
        return order, frontier

    def free_symbol(self, n, tag=""):
        ty = self.return_type(n)
        if ty is None:
            raise R.Unsupported(f"no scalar type for frontier node {n}")
        return R.sym_for(n + tag, ty)


def eval_cols(dag, n, frontier, cache, ctx, stop_at=()):
    """value of node n as a column over N persons (SymArray).  `frontier`: {name: SymArray}.
    Rules are applied element-wise through the real vectorize wrapper, aggregations / groupings /
    skip_vectorization rules run their real whole-column source on SymArrays (colsym models)."""
    from gsv import colsym  # noqa: F401  (registers the numpy / numpy_groupies models)
    if n in cache:
        return cache[n]
    if n in frontier:
        cache[n] = frontier[n]
        return cache[n]
    k = dag.kind(n)
    if k == "input" or n in stop_at:
        raise R.Unsupported(f"frontier node {n} ({k}) has no value")
    kwargs = {p: eval_cols(dag, p, frontier, cache, ctx, stop_at) for p in dag.parents(n)}
    with R.using(ctx):
        try:
            v = R.call_value(dag.funcs[n], [], kwargs)
        except R.PathEnd:
            v = None
    cache[n] = v
    return v
