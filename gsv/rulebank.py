"""Symbolic encodings of all scalar rules of one real DAG (shared by C08 and C16)."""
from __future__ import annotations

import z3

from gsv import gt, symdag, validity
from gsv import rulesym as R


class Enc:
    __slots__ = ("name", "f", "syms", "value", "errors", "assumptions", "term", "funcs", "reason")

    def __init__(self, name, f):
        self.name, self.f = name, f
        self.syms, self.value, self.errors, self.assumptions, self.term, self.funcs, self.reason = {}, None, [], [], None, set(), None


def encode_rule(dag, n, rounding=True):
    """local encoding of node n: parents are free symbols of their declared type"""
    enc = Enc(n, dag.rule_function(n) if dag.kind(n) in ("rule", "paramonly") else None)
    kwargs = {}
    try:
        for p in dag.parents(n):
            enc.syms[p] = dag.free_symbol(p)
            kwargs[p] = enc.syms[p]
        ctx = R.Ctx()
        with R.using(ctx):
            try:
                v = R.call_value(dag.funcs[n] if rounding else dag.raw_funcs[n], [], kwargs)
            except R.PathEnd:
                v = None
    except R.Unsupported as e:
        enc.reason = str(e)[:120]
        return enc
    enc.value = v
    enc.errors = list(ctx.errors)
    enc.assumptions = list(ctx.assumptions)
    enc.funcs = ctx.funcs
    if v is not None and (R.is_sym(v) or R.pytype(v) is not None):
        enc.term = R.lift(v)[0]
    return enc


def local_pre(enc, facts=None):
    """V on the rule's arguments (+ inferred facts about computed parents)"""
    cs = validity.inputs(enc.syms) + list(enc.assumptions)
    if facts:
        for a, s in enc.syms.items():
            for fct in facts.get(a, ()):
                cs.append(fct(s))
    return cs


def cone_values(dag, target, extra_frontier=()):
    """scalar evaluation of `target` from root inputs (cross-row nodes stay free); returns (value, ctx, frontier)"""
    order, fr = dag.cone([target])
    frontier = {}
    for n in fr:
        frontier[n] = dag.free_symbol(n)
    ctx = R.Ctx()
    cache = {}
    v = dag.eval_scalar(target, frontier, cache, ctx)
    return v, ctx, frontier, cache
