"""Symbolic encodings of all scalar rules of one real DAG (shared by C08 and C16)."""
from __future__ import annotations

import z3

from gsv import colsym, gt, symdag, validity
from gsv import rulesym as R
from gsv.colsym import SymArray

POINTERS = ("p_id_",)


class Enc:
    __slots__ = ("name", "f", "syms", "value", "errors", "assumptions", "term", "funcs", "reason")

    def __init__(self, name, f):
        self.name, self.f = name, f
        self.syms, self.value, self.errors, self.assumptions, self.term, self.funcs, self.reason = {}, None, [], [], None, set(), None


def encode_rule(dag, n, rounding=True):
    """local encoding of node n: parents are free symbols of their declared type"""
    enc = Enc(n, dag.rule_function(n) if dag.kind(n) in ("rule", "paramonly") else None)
    kwargs = {}
    try:
        for p in dag.parents(n):
            enc.syms[p] = dag.free_symbol(p)
            kwargs[p] = enc.syms[p]
        ctx = R.Ctx()
        with R.using(ctx):
            try:
                v = R.call_value(dag.funcs[n] if rounding else dag.raw_funcs[n], [], kwargs)
            except R.PathEnd:
                v = None
    except R.Unsupported as e:
        enc.reason = str(e)[:120]
        return enc
    enc.value = v
    enc.errors = list(ctx.errors)
    enc.assumptions = list(ctx.assumptions)
    enc.funcs = ctx.funcs
    if v is not None and (R.is_sym(v) or R.pytype(v) is not None):
        enc.term = R.lift(v)[0]
    return enc


def local_pre(enc, facts=None):
    """V on the rule's arguments (+ inferred facts about computed parents)"""
    cs = validity.inputs(enc.syms) + list(enc.assumptions)
    if facts:
        for a, s in enc.syms.items():
            for fct in facts.get(a, ()):
                cs.append(fct(s))
    return cs


def cone_values(dag, target, extra_frontier=()):
    """scalar evaluation of `target` from root inputs (cross-row nodes stay free); returns (value, ctx, frontier)"""
    order, fr = dag.cone([target])
    frontier = {}
    for n in fr:
        frontier[n] = dag.free_symbol(n)
    ctx = R.Ctx()
    cache = {}
    v = dag.eval_scalar(target, frontier, cache, ctx)
    return v, ctx, frontier, cache


class SingleCone:
    """the whole graph evaluated from root inputs for one person (ids / pointers concrete)"""

    def __init__(self, dag):
        from _gettsim.config import TYPES_INPUT_VARIABLES
        self.dag = dag
        self.frontier = {}
        self.syms = {}
        for n in dag.graph.nodes:
            if dag.kind(n) != "input":
                continue
            ty = TYPES_INPUT_VARIABLES.get(n)
            if n in ("p_id", "hh_id"):
                self.frontier[n] = SymArray([0], int)
            elif n.startswith(POINTERS):
                self.frontier[n] = SymArray([-1], int)
            elif ty in (float, int, bool):
                s = R.sym_for(n, ty)
                self.syms[n] = s
                self.frontier[n] = SymArray([s], ty)
            else:
                self.frontier[n] = None
        self.cache = {}
        self.ctxs = {}

    def value(self, n):
        """(column value, ctx with the error guards of n alone)"""
        if n in self.cache:
            return self.cache[n], self.ctxs.get(n)
        if n in self.frontier:
            if self.frontier[n] is None:
                raise R.Unsupported(f"input {n} has no scalar type")
            self.cache[n] = self.frontier[n]
            return self.cache[n], None
        kwargs = {}
        for p in self.dag.parents(n):
            kwargs[p], _ = self.value(p)
        ctx = R.Ctx()
        with R.using(ctx):
            try:
                v = R.call_value(self.dag.funcs[n], [], kwargs)
            except R.PathEnd:
                v = None
        self.cache[n], self.ctxs[n] = v, ctx
        if v is None:
            raise R.Unsupported(f"{n} raises on every path")
        return v, ctx

    def ancestors_ok(self, n):
        """no ancestor of n raises (their own obligations)"""
        import networkx as nx
        gs = []
        for a in nx.ancestors(self.dag.graph, n):
            c = self.ctxs.get(a)
            if c is not None:
                gs += [g for g, k, w in c.errors]
        return [z3.Not(z3.Or(gs))] if gs else []




STRUCTURAL = ("p_id", "hh_id", "alter", "kind", "geburtsjahr", "geburtsmonat", "geburtstag")


class TemplateCone(SingleCone):
    """the graph evaluated from root inputs for a small multi-person household template:
    ids, pointers, ages and child flags are concrete (from _gettsim.synthetic), every other documented
    input is symbolic per person"""

    def __init__(self, dag, n_adults, n_children, year):
        from _gettsim.config import TYPES_INPUT_VARIABLES
        from _gettsim.synthetic import create_synthetic_data
        import warnings
        with warnings.catch_warnings():
            warnings.simplefilter("ignore")
            # the template only provides the structure (ids, pointers, ages); synthetic data need the
            # parameters of their policy year, which do not exist for every year: use a fixed one
            df = create_synthetic_data(n_adults=n_adults, n_children=n_children, policy_year=2023)
        df = df[df["hh_id"] == df["hh_id"].iloc[0]].reset_index(drop=True)
        df["geburtsjahr"] = year - df["alter"]
        self.template = df
        self.n = len(df)
        self.dag = dag
        self.frontier, self.syms = {}, {}
        self.person_syms = [dict() for _ in range(self.n)]
        for n in dag.graph.nodes:
            if dag.kind(n) != "input":
                continue
            ty = TYPES_INPUT_VARIABLES.get(n)
            if (n in STRUCTURAL or n.startswith(POINTERS)) and n in df.columns:
                vals = [x.item() if hasattr(x, "item") else x for x in df[n].tolist()]
                self.frontier[n] = SymArray([ty(v) for v in vals], ty)
            elif ty in (float, int, bool):
                hh_level = n.endswith("_hh") or n == "mietstufe"
                es = []
                for i in range(self.n):
                    s = R.sym_for(f"{n}#{0 if hh_level else i}", ty)
                    self.syms[f"{n}#{0 if hh_level else i}"] = s
                    self.person_syms[i][n] = s
                    es.append(s)
                self.frontier[n] = SymArray(es, ty)
            else:
                self.frontier[n] = None
        self.cache, self.ctxs = {}, {}

    def valid(self):
        cs = []
        for i in range(self.n):
            cs += validity.inputs(self.person_syms[i], single_person=False)
            if "jahr_renteneintr" in self.person_syms[i] and "geburtsjahr" in self.template.columns:
                gj = int(self.template["geburtsjahr"].iloc[i])
                t = self.person_syms[i]["jahr_renteneintr"].t
                cs += [t >= gj + 20, t <= gj + 100]
            if "rentner" in self.person_syms[i] and bool(self.template["kind"].iloc[i]):
                cs.append(z3.Not(self.person_syms[i]["rentner"].t))
        return cs

    def dataframe(self, model):
        import pandas as pd
        df = self.template.copy()
        for n, col in self.frontier.items():
            if col is None or n in STRUCTURAL or n.startswith(POINTERS):
                continue
            vals = [R.model_value(model, x) for x in col.e]
            df[n] = pd.Series(vals).astype({bool: bool, int: "int64", float: "float64"}[type(vals[0])])
        return df


PENSION_BLOCK = {"rentner": False, "voll_erwerbsgemind": False, "teilw_erwerbsgemind": False, "priv_rente_m": 0.0}


def ladder(ck, pre, goal, syms, timeouts=(15, 40)):
    """search for a model of pre + goal: first with the (heavily non-linear) pension block switched off
    through its root inputs, then in full generality.  Only the full query can answer unsat.
    `syms`: {name#i: Sym}.  returns (verdict of the full query or 'sat', model)"""
    pins = []
    for k, s_ in syms.items():
        base = k.split("#")[0]
        if base in PENSION_BLOCK:
            val = PENSION_BLOCK[base]
            pins.append(s_.t == val if s_.ty is not bool else (s_.t if val else z3.Not(s_.t)))
    if pins:
        r, m = ck.solve(pre + pins + [goal], timeouts[0])
        if r == "sat":
            return "sat", m
    return ck.solve(pre + [goal], timeouts[1])
