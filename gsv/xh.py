"""CrossHair runner: one subprocess per condition under a timeout; only "Confirmed over all paths"
counts as discharged; a counterexample is parsed and handed back for replay on the real code."""
from __future__ import annotations

import ast
import concurrent.futures
import os
import re
import shutil
import subprocess
import sys
import time

from gsv import common

SCRATCH = os.path.join(common.VERIF, "scratch")


def write_harness(pid, name, text):
    d = os.path.join(SCRATCH, pid)
    os.makedirs(d, exist_ok=True)
    path = os.path.join(d, f"{name}.py")
    with open(path, "w") as fh:
        fh.write(text)
    return path


def function_lines(path):
    tree = ast.parse(open(path).read())
    return {n.name: n.lineno + 1 for n in tree.body if isinstance(n, ast.FunctionDef) and n.name.startswith("check_")}


def _run_one(path, func, line, timeout):
    t0 = time.time()
    cmd = [sys.executable, "-m", "crosshair", "check", "--report_all", "--per_condition_timeout", str(timeout),
           "--per_path_timeout", str(max(10, timeout // 4)), f"{path}:{line}"]
    env = dict(os.environ)
    env["PYTHONPATH"] = os.path.dirname(path) + os.pathsep + common.VERIF + os.pathsep + env.get("PYTHONPATH", "")
    try:
        p = subprocess.run(cmd, capture_output=True, text=True, timeout=timeout + 60, env=env)
        out = p.stdout + p.stderr
    except subprocess.TimeoutExpired:
        out = "TIMEOUT"
    verdict, cex = "inconclusive", None
    if "Confirmed over all paths" in out:
        verdict = "confirmed"
    m = re.search(r"error: (.*?) when calling (\w+)\((.*?)\)(?: \(which|\s*$)", out, re.M)
    if m:
        verdict = "counterexample"
        cex = parse_call_args(m.group(3))
        if cex is None:
            verdict = "inconclusive"
    elif "Unable to meet precondition" in out:
        verdict = "unreachable"
    elif "Not confirmed" in out:
        verdict = "inconclusive"
    return func, verdict, cex, round(time.time() - t0, 1), out[-600:]


def parse_call_args(s):
    try:
        call = ast.parse(f"f({s})").body[0].value
        out = {}
        for kw in call.keywords:
            out[kw.arg] = ast.literal_eval(kw.value)
        for i, a in enumerate(call.args):
            out[i] = ast.literal_eval(a)
        return out
    except Exception:   # noqa: BLE001
        return None


def run_all(path, funcs, timeout, jobs):
    """funcs: list of function names in the harness file; returns {func: (verdict, cex, secs, tail)}"""
    lines = function_lines(path)
    res = {}
    with concurrent.futures.ThreadPoolExecutor(max_workers=jobs) as ex:
        futs = [ex.submit(_run_one, path, f, lines[f], timeout) for f in funcs]
        for fu in concurrent.futures.as_completed(futs):
            f, verdict, cex, secs, tail = fu.result()
            res[f] = (verdict, cex, secs, tail)
    return res


def cleanup(pid):
    shutil.rmtree(os.path.join(SCRATCH, pid), ignore_errors=True)
