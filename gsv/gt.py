"""Access to the real GETTSIM objects of /repo's working tree (no copies, no caches across runs)."""
from __future__ import annotations

import datetime
import functools
import inspect
import warnings

import numpy

warnings.filterwarnings("ignore")

from _gettsim import policy_environment as PE  # noqa: E402
from _gettsim.config import (  # noqa: E402
    DEFAULT_TARGETS,
    SUPPORTED_GROUPINGS,
    SUPPORTED_TIME_UNITS,
    TYPES_INPUT_VARIABLES,
)
from _gettsim.functions_loader import load_internal_functions  # noqa: E402

from gsv import rulesym as R  # noqa: E402

GROUPS = list(SUPPORTED_GROUPINGS)
UNITS = list(SUPPORTED_TIME_UNITS)

QUICK_DATES = [datetime.date(2015, 1, 1), datetime.date(2019, 7, 1), datetime.date(2022, 10, 1),
               datetime.date(2024, 1, 1)]


@functools.lru_cache(maxsize=None)
def env(date):
    """(params, functions) of the real loader for a date (in-process memo only)."""
    return PE.set_up_policy_environment(date)


def all_internal_functions():
    return load_internal_functions()


def is_skipvec(f):
    return bool(getattr(f, "__info__", {}).get("skip_vectorization", False))


def is_rule(f):
    """a scalar policy rule: every non-params argument and the return are bool/int/float"""
    if is_skipvec(f):
        return False
    ann = f.__annotations__
    for a in inspect.signature(f).parameters:
        if a.endswith("_params"):
            continue
        if ann.get(a) not in (float, int, bool):
            return False
    return True


def suffix_group(name):
    for g in GROUPS:
        if name.endswith("_" + g):
            return g
    return None


def rule_args(f, P, tag=""):
    """symbolic arguments for rule f from its annotations; params from P.
    returns (kwargs, {argname: Sym})"""
    kw, syms = {}, {}
    for a in inspect.signature(f).parameters:
        if a.endswith("_params"):
            if a[:-7] not in P:
                raise R.Unsupported(f"parameter group {a[:-7]} missing")
            kw[a] = P[a[:-7]]
            continue
        ann = f.__annotations__.get(a)
        if ann not in (float, int, bool):
            raise R.Unsupported(f"argument {a} has non-scalar annotation {ann}")
        kw[a] = syms[a] = R.sym_for(a + tag, ann)
    return kw, syms


def concrete_value(m, s):
    return R.model_value(m, s)


def input_bounds(name, sym):
    """documented ranges of inputs (part of the valid-population predicate V)"""
    t = sym.t
    cs = []
    if sym.ty is bool:
        return cs
    if name == "alter" or name.startswith("alter_"):
        cs += [t >= 0, t <= 120]
    return cs


def function_date_for(f):
    """a date at which time-dependent function f is active (for per-function obligations)"""
    info = getattr(f, "__info__", None)
    d = datetime.date(2022, 1, 1)
    if info and "start_date" in info:
        s, e = info["start_date"], info["end_date"]
        if not (s <= d <= e):
            d = max(s, datetime.date(1985, 1, 1)) if s > d else min(e, d)
    return d


def py(v):
    """numpy scalar -> python scalar"""
    if isinstance(v, numpy.generic):
        return v.item()
    return v
