"""Access to the real GETTSIM objects of /repo's working tree (no copies, no caches across runs)."""
from __future__ import annotations

import datetime
import functools
import inspect
import warnings

import numpy

warnings.filterwarnings("ignore")

from _gettsim import policy_environment as PE  # noqa: E402
from _gettsim.config import (  # noqa: E402
    DEFAULT_TARGETS,
    SUPPORTED_GROUPINGS,
    SUPPORTED_TIME_UNITS,
    TYPES_INPUT_VARIABLES,
)
from _gettsim.functions_loader import load_internal_functions  # noqa: E402

from gsv import rulesym as R  # noqa: E402

GROUPS = list(SUPPORTED_GROUPINGS)
UNITS = list(SUPPORTED_TIME_UNITS)

QUICK_DATES = [datetime.date(2015, 1, 1), datetime.date(2019, 7, 1), datetime.date(2022, 10, 1),
               datetime.date(2024, 1, 1)]


@functools.lru_cache(maxsize=None)
def env(date):
    """(params, functions) of the real loader for a date (in-process memo only)."""
    return PE.set_up_policy_environment(date)


@functools.lru_cache(maxsize=1)
def all_internal_functions():
    return load_internal_functions()


def is_skipvec(f):
    return bool(getattr(f, "__info__", {}).get("skip_vectorization", False))


def is_rule(f):
    """a scalar policy rule: every non-params argument and the return are bool/int/float"""
    if is_skipvec(f):
        return False
    ann = f.__annotations__
    for a in inspect.signature(f).parameters:
        if a.endswith("_params"):
            continue
        if ann.get(a) not in (float, int, bool):
            return False
    return True


def suffix_group(name):
    for g in GROUPS:
        if name.endswith("_" + g):
            return g
    return None


_WIDTH = {bool: 0, int: 1, float: 2}


def column_type(name, depth=0):
    """python type of the column that the loader produces / accepts under `name`, resolved from the code base
    (not from the annotation of the consumer): documented input type, return annotation of the policy rule(s)
    registered under that DAG name (widest over time), built-in aggregation specs (count -> int, any/all -> bool,
    mean -> float, sum/max/min -> type of the source), time-unit siblings -> float.  None if unknown."""
    import re
    if depth > 6:
        return None
    if name in TYPES_INPUT_VARIABLES:
        t = TYPES_INPUT_VARIABLES[name]
        return t if t in _WIDTH else None
    best = None
    for fn, f in all_internal_functions().items():
        info = getattr(f, "__info__", {}) or {}
        if info.get("name_in_dag", fn) == name:
            t = f.__annotations__.get("return")
            if t in _WIDTH and (best is None or _WIDTH[t] > _WIDTH[best]):
                best = t
    if best is not None:
        return best
    from _gettsim.functions_loader import load_aggregation_dict
    for typ in ("aggregate_by_group", "aggregate_by_p_id"):
        spec = load_aggregation_dict(typ).get(name)
        if spec:
            aggr = spec["aggr"]
            if aggr == "count":
                return int
            if aggr in ("any", "all"):
                return bool
            if aggr == "mean":
                return float
            src = column_type(spec["source_col"], depth + 1)
            return int if (aggr == "sum" and src is bool) else src
    m = re.fullmatch(r"(?P<base>.*_)(?P<u>[ymwd])(?P<agg>_(hh|wthh|fg|bg|eg|ehe|sn))?", name)
    if m:
        g = m.group("agg") or ""
        for u in "ymwd":
            sib = f"{m.group('base')}{u}{g}"
            if u != m.group("u") and (sib in TYPES_INPUT_VARIABLES or any((getattr(f, "__info__", {}) or {}).get("name_in_dag", fn) == sib
                                                                          for fn, f in all_internal_functions().items())):
                return float
        if g:   # automatic group sum of the individual-level column
            src = column_type(name[: -len(g)], depth + 1)
            return int if src is bool else src
    return None


def rule_args(f, P, tag="", widen=False):
    """symbolic arguments for rule f from its annotations; params from P.
    returns (kwargs, {argname: Sym}).  widen=True: an argument whose producing column is of a wider type than the
    consumer's annotation says (int-annotated argument fed by a float column) gets the wider type."""
    kw, syms = {}, {}
    for a in inspect.signature(f).parameters:
        if a.endswith("_params"):
            if a[:-7] not in P:
                raise R.Unsupported(f"parameter group {a[:-7]} missing")
            kw[a] = P[a[:-7]]
            continue
        ann = f.__annotations__.get(a)
        if ann not in (float, int, bool):
            raise R.Unsupported(f"argument {a} has non-scalar annotation {ann}")
        if widen:
            actual = _column_type_cached(a)
            if actual in _WIDTH and _WIDTH[actual] > _WIDTH[ann]:
                ann = actual
        kw[a] = syms[a] = R.sym_for(a + tag, ann)
    return kw, syms


@functools.lru_cache(maxsize=None)
def _column_type_cached(name):
    return column_type(name)


def concrete_value(m, s):
    return R.model_value(m, s)


def input_bounds(name, sym):
    """documented ranges of inputs (part of the valid-population predicate V)"""
    t = sym.t
    cs = []
    if sym.ty is bool:
        return cs
    if name == "alter" or name.startswith("alter_"):
        cs += [t >= 0, t <= 120]
    return cs


def function_date_for(f):
    """a date at which time-dependent function f is active (for per-function obligations)"""
    info = getattr(f, "__info__", None)
    d = datetime.date(2022, 1, 1)
    if info and "start_date" in info:
        s, e = info["start_date"], info["end_date"]
        if not (s <= d <= e):
            d = max(s, datetime.date(1985, 1, 1)) if s > d else min(e, d)
    return d


def py(v):
    """numpy scalar -> python scalar"""
    if isinstance(v, numpy.generic):
        return v.item()
    return v


def _param_access_chains(fn, argname):
    """constant subscript chains `arg["a"]["b"]...` in the source of fn; None if the argument is used in any
    other way (then the whole parameter group counts as read)"""
    import ast
    tree = R.func_ast(fn)
    parent = {}
    for node in ast.walk(tree):
        for ch in ast.iter_child_nodes(node):
            parent[ch] = node
    chains = set()
    for node in ast.walk(tree):
        if isinstance(node, ast.Name) and node.id == argname and isinstance(node.ctx, ast.Load):
            chain, cur = [], node
            while True:
                p = parent.get(cur)
                if isinstance(p, ast.Subscript) and p.value is cur and isinstance(p.slice, ast.Constant):
                    chain.append(p.slice.value)
                    cur = p
                elif (isinstance(p, ast.Attribute) and p.value is cur and p.attr == "get" and isinstance(parent.get(p), ast.Call)
                      and parent[p].func is p and parent[p].args and isinstance(parent[p].args[0], ast.Constant)):
                    chain.append(parent[p].args[0].value)     # d.get("k", default): the key is read, absence is a value too
                    cur = parent[p]
                else:
                    break
            if not chain:
                return None
            chains.add(tuple(chain))
    return sorted(chains)


_YAML_MEMO = {}


def _memo_yaml_load(text, Loader=None, **kw):   # noqa: N803
    """memoised yaml.load for the many per-date loads of one group file (same parse, deep-copied)"""
    import copy
    import yaml
    k = hash(text)
    if k not in _YAML_MEMO:
        _YAML_MEMO[k] = yaml.load(text, Loader=Loader, **kw)   # noqa: S506 -- the loader's own call, same Loader
    return copy.deepcopy(_YAML_MEMO[k])


class _YamlShim:
    def __getattr__(self, name):
        import yaml
        return _memo_yaml_load if name == "load" else getattr(yaml, name)


@functools.lru_cache(maxsize=None)
def _group_at(group, date):
    real = PE.yaml
    PE.yaml = _YamlShim()
    try:
        return PE._parse_piecewise_parameters(PE._load_parameter_group_from_yaml(date, group))
    finally:
        PE.yaml = real


@functools.lru_cache(maxsize=None)
def _group_dates(group):
    from gsv.reference import resolver as ref
    from _gettsim.config import RESOURCE_DIR
    rs = ref.Resolver(RESOURCE_DIR / "parameters")
    dates = set()
    for p in rs.params_of(group):
        spec = rs.raw(group)[p]
        if isinstance(spec, dict):
            dates |= set(rs.entry_dates(spec))
    return tuple(sorted(dates))


def _abstract(v):
    """structural signature of a parameter value: keys, types, zero / non-zero, sizes -- not the numbers"""
    if isinstance(v, dict):
        return "{" + ",".join(f"{k!r}:{_abstract(x)}" for k, x in sorted(v.items(), key=lambda kv: repr(kv[0]))) + "}"
    if isinstance(v, (list, tuple)):
        return "[" + ",".join(_abstract(x) for x in v) + "]"
    if isinstance(v, numpy.ndarray):
        return f"array{v.shape}"
    if isinstance(v, (bool, numpy.bool_)):
        return f"bool:{bool(v)}"
    if isinstance(v, (int, float, numpy.number)):
        return f"{type(v).__name__}:{'0' if v == 0 else ('inf' if v in (float('inf'), float('-inf')) else ('+' if v > 0 else '-'))}"
    return type(v).__name__


def param_variants(fn, lo=None, hi=None, abstract=False):
    """[(label, {params-argument: value})]: one entry per distinct value of the parameters that fn reads, over
    every change date of the parameter groups it takes (restricted to [lo, hi], lo itself included).
    [("", {})] for functions without *_params arguments, i.e. the check is date-independent exactly when the
    function is."""
    pargs = [a for a in inspect.signature(fn).parameters if a.endswith("_params")]
    if not pargs:
        return [("", {})]
    dates = set()
    for a in pargs:
        try:
            dates |= set(_group_dates(a[: -len("_params")]))
        except Exception:   # noqa: BLE001 -- unknown group: the loader decides below
            pass
    if lo is not None:
        dates = {d for d in dates if d >= lo} | {lo}
    if hi is not None:
        dates = {d for d in dates if d <= hi}
    chains = {a: _param_access_chains(fn, a) for a in pargs}
    out, seen = [], set()
    for d in sorted(dates):
        kw, sig = {}, []
        for a in pargs:
            g = a[: -len("_params")]
            try:
                val = _group_at(g, d)
            except Exception as e:   # noqa: BLE001
                sig.append((a, f"load error {type(e).__name__}"))
                continue
            kw[a] = val
            rep = _abstract if abstract else repr
            if chains[a] is None:
                sig.append((a, rep(val)))
            else:
                for ch in chains[a]:
                    cur = val
                    try:
                        for k in ch:
                            cur = cur[k]
                    except (KeyError, TypeError, IndexError):
                        cur = "<missing>"
                    sig.append((a, ch, rep(cur)))
        key = repr(sig)
        if key in seen or len(kw) != len(pargs):
            continue
        seen.add(key)
        out.append((f"{d}", kw))
    return out


def bound(fn, label=None):
    """fn with its *_params arguments bound (variant `label`, default: the parameters in force latest);
    fn itself when it takes no parameters"""
    vs = param_variants(fn)
    if vs == [("", {})]:
        return fn
    for lab, kw in vs:
        if lab == label:
            return functools.partial(fn, **kw)
    if label:
        raise KeyError(f"no parameter variant {label!r} of {getattr(fn, '__name__', fn)}")
    return functools.partial(fn, **vs[-1][1])
