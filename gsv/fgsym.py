"""z3-level obligations on the real `fg_id_numpy` (and the other grouping functions), executed by rulesym
through guarded dictionaries over the concrete person labels.  Used by C12 / C01 / C02.

The family structure (household, age, partner and parent pointers) is symbolic; person labels are a
concrete vector (canonical 0..N-1, or a sparse unsorted one for relabelling).  Every run first
validates the encoding against the real function on seeded random structures.
"""
from __future__ import annotations

import itertools
import random

import numpy
import z3

from gsv import colsym, common
from gsv import rulesym as R
from gsv.colsym import SymArray

CLASSES = ("stepchild", "child-with-partner", "two-nonpartner-parents")
LABS = {3: [[0, 1, 2], [7, 3, 11], [40, 0, 12]], 4: [[0, 1, 2, 3], [7, 3, 11, 5], [40, 0, 12, 33]], 5: [[0, 1, 2, 3, 4], [7, 3, 11, 5, 2], [40, 0, 12, 33, 8]],
        2: [[0, 1], [7, 3], [40, 0]]}


class Structure:
    """symbolic family structure over persons 0..N-1 (pointer values are person *indices*)"""

    def __init__(self, n, tag=""):
        self.n = n
        mk = lambda name: [z3.Int(f"{name}{tag}{i}") for i in range(n)]   # noqa: E731
        self.hh, self.alt, self.ep, self.e1, self.e2 = mk("hh"), mk("alt"), mk("ep"), mk("e1"), mk("e2")

    def valid(self):
        n = self.n
        cs = []
        for i in range(n):
            cs += [self.hh[i] >= 0, self.hh[i] <= 1, self.alt[i] >= 0, self.alt[i] <= 100]
            cs += [self.ep[i] >= -1, self.ep[i] < n, self.ep[i] != i, z3.Implies(self.ep[i] >= 0, self.alt[i] >= 16)]
            for q in (self.e1, self.e2):
                cs += [q[i] >= -1, q[i] < n, q[i] != i]
                for j in range(n):
                    cs.append(z3.Implies(q[i] == j, z3.And(self.alt[j] >= self.alt[i] + 14, self.ep[i] != j)))
            cs.append(z3.Implies(self.e1[i] >= 0, self.e1[i] != self.e2[i]))
            for j in range(n):
                cs.append(z3.Implies(self.ep[i] == j, z3.And(self.ep[j] == i, self.hh[j] == self.hh[i])))
        return cs

    def is_parent(self, p, c):
        return z3.Or(self.e1[c] == p, self.e2[c] == p)

    def has_children(self, c):
        return z3.Or([self.is_parent(c, k) for k in range(self.n) if k != c])

    def cls(self, tag):
        """z3 predicate: the structure contains the known-bad class `tag`"""
        n = self.n
        out = []
        for c in range(n):
            for p in range(n):
                if p == c:
                    continue
                par = self.is_parent(p, c)
                cores = z3.And(par, self.hh[p] == self.hh[c])
                if tag == "child-with-partner":
                    out.append(z3.And(self.ep[c] >= 0, self.alt[c] < 25, cores))
                if tag == "stepchild":
                    # a co-resident parent's partner is not the child's parent
                    for q in range(n):
                        if q in (p, c):
                            continue
                        out.append(z3.And(cores, self.ep[p] == q, z3.Not(self.is_parent(q, c))))
                if tag == "two-nonpartner-parents":
                    for q in range(p + 1, n):
                        if q == c:
                            continue
                        out.append(z3.And(cores, self.is_parent(q, c), self.hh[q] == self.hh[c], self.ep[p] != q))
        return z3.Or(out) if out else z3.BoolVal(False)

    def model_values(self, m):
        g = lambda xs: [m.eval(x, model_completion=True).as_long() for x in xs]   # noqa: E731
        return dict(hh=g(self.hh), alt=g(self.alt), ep=g(self.ep), e1=g(self.e1), e2=g(self.e2))


# parameters that the real fg_id_numpy takes besides the data columns (none on the pinned tree); the
# obligations are repeated for every distinct value of the parameters it reads, see gt.param_variants
_EXTRA = {}


def variants():
    from _gettsim.groupings import fg_id_numpy
    from gsv import gt
    return gt.param_variants(fg_id_numpy)


def set_variant(label):
    for lab, kw in variants():
        if lab == label:
            _EXTRA.clear()
            _EXTRA.update(kw)
            return
    raise common.HarnessError(f"no parameter variant {label!r} of fg_id_numpy")


def run_fg(st, labels, order=None):
    """real fg_id_numpy on the structure, rows in `order`; returns z3 terms of fg ids per *person*"""
    from _gettsim.groupings import fg_id_numpy
    n = st.n
    order = list(range(n)) if order is None else list(order)

    def ptr(xs):
        # pointer column holds labels: index -> label (ITE over the concrete label vector)
        out = []
        for i in order:
            t = z3.IntVal(-1)
            for j in range(n):
                t = z3.If(xs[i] == j, z3.IntVal(labels[j]), t)
            out.append(R.Sym(t, int))
        return SymArray(out, int)

    col = lambda xs: SymArray([R.Sym(xs[i], int) for i in order], int)   # noqa: E731
    ctx = R.Ctx()
    ctx.key_domain = list(labels)
    v, ctx = R.run(fg_id_numpy, kwargs=dict(p_id=SymArray([labels[i] for i in order], int), hh_id=col(st.hh), alter=col(st.alt),
                                            p_id_einstandspartner=ptr(st.ep), p_id_elternteil_1=ptr(st.e1), p_id_elternteil_2=ptr(st.e2), **_EXTRA), ctx=ctx)
    if v is None:
        raise R.Unsupported("fg_id_numpy raises on every path")
    ids = [None] * n
    for pos, i in enumerate(order):
        ids[i] = R.term_of(v.e[pos])
    errs = [g for g, k, w in ctx.errors]
    return ids, list(ctx.assumptions), errs, ctx.funcs


def validate_encoding(n, rnd, k=150):
    """the symbolic result, evaluated on concrete structures, equals the real function (guards the encoder)"""
    from _gettsim.groupings import fg_id_numpy
    st = Structure(n, "v")
    labels = LABS[n][1]
    ids, _, _, _ = run_fg(st, labels)
    for _ in range(k):
        vals = dict(hh=[rnd.choice([0, 1]) for _ in range(n)], alt=[rnd.choice([2, 17, 20, 24, 25, 40, 60]) for _ in range(n)],
                    ep=[rnd.choice(range(-1, n)) for _ in range(n)], e1=[rnd.choice(range(-1, n)) for _ in range(n)], e2=[rnd.choice(range(-1, n)) for _ in range(n)])
        for i in range(n):   # pointers to oneself are rejected by the interface; avoid them
            for key in ("ep", "e1", "e2"):
                if vals[key][i] == i:
                    vals[key][i] = -1
        subs = []
        for name, xs in (("hh", st.hh), ("alt", st.alt), ("ep", st.ep), ("e1", st.e1), ("e2", st.e2)):
            subs += [(x, z3.IntVal(vals[name][i])) for i, x in enumerate(xs)]
        sym = [z3.simplify(z3.substitute(t, *subs)).as_long() for t in ids]
        lab = lambda p: [(-1 if q < 0 else labels[q]) for q in p]   # noqa: E731
        real = [int(x) for x in fg_id_numpy(numpy.array(labels), numpy.array(vals["hh"]), numpy.array(vals["alt"]),
                                            numpy.array(lab(vals["ep"])), numpy.array(lab(vals["e1"])), numpy.array(lab(vals["e2"])), **_EXTRA)]
        if sym != real:
            raise common.HarnessError(f"fg_id_numpy encoding disagrees with the real function on {vals}: {sym} vs {real}")
    return k


def same_partition(a, b, n):
    return z3.And([(a[i] == a[j]) == (b[i] == b[j]) for i in range(n) for j in range(i + 1, n)])


def connected(st, a, b):
    """pointer path between a and b (bounded unrolling: n-1 steps)"""
    n = st.n
    link = [[z3.Or(st.ep[x] == y, st.e1[x] == y, st.e2[x] == y, st.e1[y] == x, st.e2[y] == x) if x != y else z3.BoolVal(True) for y in range(n)] for x in range(n)]
    reach = [[link[x][y] for y in range(n)] for x in range(n)]
    for _ in range(n - 2):
        reach = [[z3.Or([z3.And(reach[x][k], link[k][y]) for k in range(n)]) for y in range(n)] for x in range(n)]
    return reach[a][b]


def obligations(n, excl, with_orders=True, with_relabel=True, sep_na=None, orders=None, only_orders=False):
    """[(name, claim, constraints (negated property), structure)]"""
    st = Structure(n)
    labels = LABS[n][0]
    ids, assume, errs, funcs = run_fg(st, labels)
    pre = st.valid() + assume + [z3.Not(st.cls(t)) for t in excl]
    obs = []
    obs.append(("fg_no_error", "fg_id_numpy does not raise on valid structures", pre + [z3.Or(errs) if errs else z3.BoolVal(False)], st))
    obs.append(("fg_partner", "partners share a Familiengemeinschaft",
                pre + [z3.Or([z3.And(st.ep[i] == j, ids[i] != ids[j]) for i in range(n) for j in range(n) if i != j])], st))
    child = []
    for c in range(n):
        copar = lambda q: z3.And(st.is_parent(q, c), st.hh[q] == st.hh[c])   # noqa: E731
        unamb = z3.And([z3.Implies(z3.And(copar(p), copar(q)), st.ep[p] == q) for p in range(n) for q in range(p + 1, n) if c not in (p, q)])
        for p in range(n):
            if p == c:
                continue
            qual = z3.And(st.is_parent(p, c), st.hh[c] == st.hh[p], st.alt[c] < 25, z3.Not(st.has_children(c)), st.ep[c] < 0, unamb)
            child.append(z3.And(qual, ids[c] != ids[p]))
            for q in range(n):
                if q not in (p, c):
                    child.append(z3.And(qual, st.ep[p] == q, ids[c] != ids[q]))
    obs.append(("fg_child", "a co-resident childless child under 25 without own partner shares the family unit of its parent(s) and their partner", pre + [z3.Or(child)], st))
    # exactness: two persons share a family unit only if a chain of partner links and qualified-child links joins them
    # (qualified child, weak form: co-resident, under 25, no own children ANYWHERE in the data)
    def link(x, y):
        qc = lambda c, q: z3.And(st.is_parent(q, c), st.hh[c] == st.hh[q], st.alt[c] < 25, z3.Not(st.has_children(c)))   # noqa: E731
        return z3.Or(st.ep[x] == y, st.ep[y] == x, qc(x, y), qc(y, x))
    rel = [[(z3.BoolVal(True) if x == y else link(x, y)) for y in range(n)] for x in range(n)]
    for _ in range(max(n - 2, 0)):
        rel = [[z3.Or([z3.And(rel[x][k], (z3.BoolVal(True) if k == y else link(k, y))) for k in range(n)]) for y in range(n)] for x in range(n)]
    obs.append(("fg_only", "persons share a family unit only through partner links and qualified-child links (co-resident, under 25, no own children)",
                pre + [z3.Or([z3.And(ids[a] == ids[b], z3.Not(rel[a][b])) for a in range(n) for b in range(a + 1, n)])], st))
    obs.append(("fg_nopath", "no pointer path => different family units; family unit within the household",
                pre + [z3.Or([z3.And(ids[a] == ids[b], z3.Or(z3.Not(connected(st, a, b)), st.hh[a] != st.hh[b])) for a in range(n) for b in range(a + 1, n)])], st))
    if only_orders:
        obs = []
    if with_orders:
        # one obligation per row order (a single disjunction over all N! orders is much harder for z3)
        for pi in (list(itertools.permutations(range(n)))[1:] if orders is None else orders):
            ids2, a2, e2, _ = run_fg(st, labels, pi)
            obs.append((f"fg_order{list(pi)}", "the family-unit partition is the same for this row order as for the canonical one",
                        pre + a2 + [z3.Not(same_partition(ids, ids2, n))], st))
    if with_relabel:
        bad, more = [], []
        for lab in LABS[n][1:]:
            ids2, a2, e2, _ = run_fg(st, lab)
            more += a2
            bad.append(z3.Not(same_partition(ids, ids2, n)))
        obs.append(("fg_relabel", "sparse unsorted person labels give the same partition", pre + more + [z3.Or(bad)], st))
    if sep_na:
        na = sep_na
        split = []
        for i in range(n):
            for xs in (st.ep, st.e1, st.e2):
                split.append(z3.Implies(xs[i] >= 0, (xs[i] < na) == (i < na)))
        split += [st.hh[i] != st.hh[j] for i in range(na) for j in range(na, n)]
        sub = Structure(na, "a")
        tie = []
        for i in range(na):
            tie += [sub.hh[i] == st.hh[i], sub.alt[i] == st.alt[i], sub.ep[i] == st.ep[i], sub.e1[i] == st.e1[i], sub.e2[i] == st.e2[i]]
        ids_a, a3, e3, _ = run_fg(sub, labels[:na])
        bad = z3.Or(z3.Not(same_partition(ids[:na], ids_a, na)) if na > 1 else z3.BoolVal(False),
                    z3.Or([ids[a] == ids[b] for a in range(na) for b in range(na, n)]))
        obs.append(("fg_separable", "F(A++B) restricted to A has A's partition and shares no unit with B", pre + split + tie + a3 + [bad], st))
    return obs, funcs


def real_partition(vals, labels, order=None):
    from gsv import grouping_checks as GC
    lab = lambda p: [(-1 if q < 0 else labels[q]) for q in p]   # noqa: E731
    from _gettsim.groupings import fg_id_numpy
    n = len(vals["hh"])
    order = list(range(n)) if order is None else list(order)
    arr = lambda x: numpy.array([x[i] for i in order])   # noqa: E731
    ids = fg_id_numpy(arr(labels), arr(vals["hh"]), arr(vals["alt"]), arr(lab(vals["ep"])), arr(lab(vals["e1"])), arr(lab(vals["e2"])), **_EXTRA)
    back = [None] * n
    for pos, i in enumerate(order):
        back[i] = int(ids[pos])
    return back


def reproduces(name, vals, n, sep_na=None):
    """re-evaluate the claim concretely on the real function"""
    labels = LABS[n][0]
    ids = real_partition(vals, labels)
    part = lambda x: [[x[i] == x[j] for j in range(len(x))] for i in range(len(x))]   # noqa: E731
    hh, alt, ep, e1, e2 = (vals[k] for k in ("hh", "alt", "ep", "e1", "e2"))
    if name == "fg_partner":
        return any(ep[i] >= 0 and ids[i] != ids[ep[i]] for i in range(n))
    if name.startswith("fg_order"):
        return any(part(real_partition(vals, labels, pi)) != part(ids) for pi in itertools.permutations(range(n)))
    if name == "fg_relabel":
        return any(part(real_partition(vals, lab)) != part(ids) for lab in LABS[n][1:])
    if name == "fg_child":
        for c in range(n):
            ps = [q for q in (e1[c], e2[c]) if q >= 0 and hh[q] == hh[c]]
            if alt[c] >= 25 or ep[c] >= 0 or any(c in (e1[k], e2[k]) for k in range(n)) or not ps:
                continue
            if len(ps) == 2 and ep[ps[0]] != ps[1]:
                continue
            for p in ps:
                if ids[c] != ids[p] or (ep[p] >= 0 and ids[c] != ids[ep[p]]):
                    return True
        return False
    if name == "fg_only":
        import networkx as nx
        g = nx.Graph()
        g.add_nodes_from(range(n))
        has_kids = lambda c: any(c in (e1[k], e2[k]) for k in range(n) if k != c)   # noqa: E731
        for i in range(n):
            if ep[i] >= 0:
                g.add_edge(i, ep[i])
            for q in (e1[i], e2[i]):
                if q >= 0 and hh[q] == hh[i] and alt[i] < 25 and not has_kids(i):
                    g.add_edge(i, q)
        return any(ids[a] == ids[b] and not nx.has_path(g, a, b) for a in range(n) for b in range(a + 1, n))
    if name == "fg_nopath":
        import networkx as nx
        g = nx.Graph()
        g.add_nodes_from(range(n))
        for i in range(n):
            for q in (ep[i], e1[i], e2[i]):
                if q >= 0:
                    g.add_edge(i, q)
        return any(ids[a] == ids[b] and (hh[a] != hh[b] or not nx.has_path(g, a, b)) for a in range(n) for b in range(a + 1, n))
    if name == "fg_separable":
        na = sep_na
        sub = {k: v[:na] for k, v in vals.items()}
        ida = real_partition(sub, labels[:na])
        return part(ids[:na]) != part(ida) or any(ids[a] == ids[b] for a in range(na) for b in range(na, n))
    if name == "fg_no_error":
        return False   # real_partition above returned, so the real function does not raise on this structure
    return False


def run_obligations(ck, pid, n, excl, with_orders=True, with_relabel=True, sep_na=None, timeout=120):
    vs = variants()
    ck.extra["fg_parameter_variants"] = [lab or "none (fg_id_numpy takes no parameters)" for lab, _ in vs]
    for lab, kw in vs:
        _EXTRA.clear()
        _EXTRA.update(kw)
        try:
            _run_obligations(ck, pid, n, excl, with_orders, with_relabel, sep_na, timeout, lab)
        except R.Unsupported as e:
            # the real function uses a construct the encoder does not model: no verdict (CrossHair still runs)
            ck.not_encoded[f"fg_id_numpy N={n}"] = str(e)[:160]
            ck.inconclusive.append(f"fg_id_numpy N={n}: not encodable ({str(e)[:100]})")
        finally:
            _EXTRA.clear()


def _orders_chunk(ck, arg):
    """worker: the row-order obligations of a subset of the N! permutations"""
    pid, n, excl, perms, timeout, variant = arg
    for lab, kw in variants():
        if lab == variant:
            _EXTRA.clear()
            _EXTRA.update(kw)
    try:
        _run_obligations(ck, pid, n, excl, True, False, None, timeout, variant, orders=perms)
    finally:
        _EXTRA.clear()


def run_order_obligations_parallel(ck, pid, n, excl, timeout=600):
    """definitions once, the N!-1 row orders spread over worker processes (N=5: 119 orders)"""
    perms = list(itertools.permutations(range(n)))[1:]
    for lab, kw in variants():
        _EXTRA.clear()
        _EXTRA.update(kw)
        try:
            _run_obligations(ck, pid, n, excl, False, False, None, timeout, lab)
        except R.Unsupported as e:
            ck.not_encoded[f"fg_id_numpy N={n}"] = str(e)[:160]
            ck.inconclusive.append(f"fg_id_numpy N={n}: not encodable ({str(e)[:100]})")
            continue
        finally:
            _EXTRA.clear()
        chunks = [(pid, n, tuple(excl), perms[i::common.JOBS], timeout, lab) for i in range(common.JOBS) if perms[i::common.JOBS]]
        common.run_parallel(ck, _orders_chunk, chunks)


def _run_obligations(ck, pid, n, excl, with_orders, with_relabel, sep_na, timeout, variant, orders=None):
    rnd = random.Random(common.SEED)
    tag = f" params@{variant}" if variant else ""
    try:
        k = validate_encoding(min(n, 4), rnd) if orders is None else 0
        obs, funcs = obligations(n, excl, with_orders, with_relabel, sep_na, orders=orders, only_orders=orders is not None)
    except R.Unsupported as e:
        if "raises on every path" not in str(e):
            raise
        # the real function fails on every structure with these parameters: show it on the smallest one
        vals = dict(hh=[0] * n, alt=[30] * n, ep=[-1] * n, e1=[-1] * n, e2=[-1] * n)
        ck.obligations += 1
        try:
            real_partition(vals, LABS[n][0])
            raise common.HarnessError(f"fg_id_numpy{tag}: encoder sees an error on every path, the real function does not raise")
        except common.HarnessError:
            raise
        except Exception as ex:   # noqa: BLE001
            ck.violation(["fg_no_error", "every-structure", variant], f"fg_id_numpy{tag} raises {type(ex).__name__}: {ex} on every structure (e.g. {n} singles)",
                         {"kind": "fgsym", "name": "fg_no_error", "vals": vals, "n": n, "sep_na": None, "variant": variant})
        return
    ck.extra["fg_encoding_validation_points"] = ck.extra.get("fg_encoding_validation_points", 0) + k
    ck.functions |= funcs
    for name, claim, cons, st in obs:
        r, m = ck.oblige(f"{name} N={n}{tag}", cons, timeout,
                         sample={"condition": name, "claim": claim, "persons": n, "engine": "rulesym + z3 (real fg_id_numpy through guarded dictionaries)",
                                 "excluded_structure_classes": list(excl), "parameters_in_force_at": variant or None})
        ck.nontrivial.add((name, n, variant))
        if r == "sat":
            vals = st.model_values(m)
            tags = [t for t in CLASSES if z3.is_true(m.eval(st.cls(t), model_completion=True))]
            rep = {"kind": "fgsym", "name": name, "vals": vals, "n": n, "sep_na": sep_na, "variant": variant}
            if name == "fg_no_error":
                try:
                    real_partition(vals, LABS[n][0])
                    common.spurious(pid, f"{name}{tag}: model {vals} does not raise on the real fg_id_numpy")
                except Exception as ex:   # noqa: BLE001
                    ck.violation([name, ",".join(tags) or "unclassified"], f"fg_id_numpy{tag} raises {type(ex).__name__} on the valid structure {vals} classes={tags}", rep)
            elif reproduces(name, vals, n, sep_na):
                ck.violation([name.split("[")[0], ",".join(tags) or "unclassified"], f"{name} ({claim}){tag} fails for N={n}: {vals} classes={tags}", rep)
            else:
                common.spurious(pid, f"{name}{tag}: model {vals} does not reproduce on the real fg_id_numpy")
