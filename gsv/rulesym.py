"""rulesym -- symbolic executor for GETTSIM rule code (Python AST -> z3 terms).

The interpreter walks the *real source* of the function objects it is given
(``inspect.getsource`` on the live objects loaded from /repo's working tree) and
evaluates it over a mixed domain:

* concrete Python / numpy values run natively (partial evaluation),
* ``Sym``: a z3 term (Bool / Int / Real) tagged with its dynamic Python type
  (``bool | int | float``; guard-dependent where branches disagree),
* ``Choice``: guarded alternatives of concrete non-numeric objects (dict / list / array)
  produced by symbolic subscripts into parameter tables,
* containers of those.

Floats are exact reals (float constants are lifted to the exact rational of the stored
double).  With ``fp=True`` every float operation result is multiplied by (1+d), |d|<=2^-53
with a fresh d (standard model of rounding error, normal range).

Every partial operation records an *error guard* (path guard AND local failure condition)
under which real Python would raise.  ``raise`` statements end the path and record a guard.

Small-domain integers that must be concrete (``searchsorted`` bins, ``range`` bounds) are
*forked*: each call frame is a fork scope that is re-executed once per feasible value and
the results are merged by path condition.
"""
from __future__ import annotations

import ast
import builtins
import fractions
import functools
import inspect
import math
import operator
import textwrap

import numpy
import z3

INF = float("inf")
NONFINITE_IS_ERROR = [False]
WIDTH = {bool: 0, int: 1, float: 2}
TYPES = (bool, int, float)


class Unsupported(Exception):
    pass


class Infeasible(Exception):
    pass


class PathEnd(Exception):
    """Raised to end a path (after an unconditional raise inside an expression)."""


# --------------------------------------------------------------------------------------
# values
# --------------------------------------------------------------------------------------
def zbool(x):
    return x if z3.is_expr(x) else z3.BoolVal(bool(x))


def zand(*xs):
    out = []
    for x in xs:
        if x is True:
            continue
        if x is False:
            return False
        if z3.is_true(x):
            continue
        if z3.is_false(x):
            return False
        out.append(x)
    if not out:
        return True
    return out[0] if len(out) == 1 else z3.And(out)


def zor(*xs):
    out = []
    for x in xs:
        if x is False:
            continue
        if x is True:
            return True
        if z3.is_false(x):
            continue
        if z3.is_true(x):
            return True
        out.append(x)
    if not out:
        return False
    return out[0] if len(out) == 1 else z3.Or(out)


def znot(x):
    if x is True:
        return False
    if x is False:
        return True
    if z3.is_true(x):
        return False
    if z3.is_false(x):
        return True
    return z3.Not(x)


class Sym:
    """z3 term + dynamic python type.

    ty  : widest python type the value can have (sort of ``t``: Bool/Int/Real)
    dyn : None (type is exactly ``ty``) or {type: guard} (guards are z3 Bool / python bool)
    """

    __slots__ = ("t", "ty", "dyn")

    def __init__(self, t, ty, dyn=None):
        self.t, self.ty, self.dyn = t, ty, dyn

    def __repr__(self):
        return f"Sym<{self.ty.__name__}{'*' if self.dyn else ''}>({self.t})"

    def __bool__(self):
        raise Unsupported("truth value of a symbolic scalar used natively")

    __hash__ = None

    # operators -> module-level ops (so library models can be written in plain python)
    def __add__(self, o): return binop(ast.Add(), self, o)
    def __radd__(self, o): return binop(ast.Add(), o, self)
    def __sub__(self, o): return binop(ast.Sub(), self, o)
    def __rsub__(self, o): return binop(ast.Sub(), o, self)
    def __mul__(self, o): return binop(ast.Mult(), self, o)
    def __rmul__(self, o): return binop(ast.Mult(), o, self)
    def __truediv__(self, o): return binop(ast.Div(), self, o)
    def __rtruediv__(self, o): return binop(ast.Div(), o, self)
    def __floordiv__(self, o): return binop(ast.FloorDiv(), self, o)
    def __rfloordiv__(self, o): return binop(ast.FloorDiv(), o, self)
    def __mod__(self, o): return binop(ast.Mod(), self, o)
    def __pow__(self, o): return binop(ast.Pow(), self, o)
    def __neg__(self): return neg(self)
    def __pos__(self): return self
    def __abs__(self): return py_abs(self)
    def __lt__(self, o): return compare(ast.Lt(), self, o)
    def __le__(self, o): return compare(ast.LtE(), self, o)
    def __gt__(self, o): return compare(ast.Gt(), self, o)
    def __ge__(self, o): return compare(ast.GtE(), self, o)
    def __eq__(self, o): return compare(ast.Eq(), self, o)
    def __ne__(self, o): return compare(ast.NotEq(), self, o)
    def __and__(self, o): return Sym(z3.And(truth(self), truth(o)), bool)
    def __rand__(self, o): return Sym(z3.And(truth(o), truth(self)), bool)
    def __or__(self, o): return Sym(z3.Or(truth(self), truth(o)), bool)
    def __ror__(self, o): return Sym(z3.Or(truth(o), truth(self)), bool)
    def __invert__(self):
        if self.ty is bool:
            return Sym(z3.Not(self.t), bool)
        raise Unsupported("~ on non-bool")

    def round(self, n=0):
        return np_round(self, n)

    def astype(self, ty):
        return cast(self, ty)


class Choice:
    """Guarded alternatives of concrete objects: [(guard, obj), ...] (guards disjoint)."""

    __slots__ = ("alts",)

    def __init__(self, alts):
        self.alts = alts

    def __repr__(self):
        return f"Choice({len(self.alts)})"


def is_sym(v):
    return isinstance(v, Sym)


def is_symbolic(v):
    if isinstance(v, (Sym, Choice)):
        return True
    if type(v).__name__ in ("SymArray", "SymMat", "AggTable", "Masked", "SymSeries"):
        return True
    if isinstance(v, (list, tuple)):
        return any(is_symbolic(x) for x in v)
    if isinstance(v, dict):
        return any(is_symbolic(x) for x in v.values())
    return False


def const_real(f):
    fr = fractions.Fraction(float(f))
    return z3.RealVal(f"{fr.numerator}/{fr.denominator}")


def pytype(v):
    if isinstance(v, (bool, numpy.bool_)):
        return bool
    if isinstance(v, (int, numpy.integer)):
        return int
    if isinstance(v, (float, numpy.floating)):
        return float
    return None


def lift(v):
    """value -> (z3 term, python type). Non-finite floats are not liftable."""
    if isinstance(v, Sym):
        return v.t, v.ty
    ty = pytype(v)
    if ty is bool:
        return z3.BoolVal(bool(v)), bool
    if ty is int:
        return z3.IntVal(int(v)), int
    if ty is float:
        f = float(v)
        if f != f or f in (INF, -INF):
            raise Unsupported(f"non-finite constant {f} in symbolic arithmetic")
        return const_real(f), float
    raise Unsupported(f"cannot lift {type(v).__name__} value to a term")


def tyguards(v):
    """{type: guard} for a scalar value."""
    if isinstance(v, Sym):
        if v.dyn is None:
            return {v.ty: True}
        return v.dyn
    ty = pytype(v)
    if ty is None:
        raise Unsupported(f"no scalar type for {type(v).__name__}")
    return {ty: True}


def coerce(t, ty, to):
    if ty is to:
        return t
    if ty is bool:
        t = z3.If(t, z3.IntVal(1), z3.IntVal(0))
        ty = int
    if ty is int and to is float:
        if z3.is_int_value(t):
            return z3.RealVal(t.as_long())
        return z3.ToReal(t)
    if ty is to:
        return t
    raise Unsupported(f"coerce {ty} -> {to}")


def num(v):
    """value -> (numeric term, int|float)"""
    t, ty = lift(v)
    if ty is bool:
        return coerce(t, bool, int), int
    return t, ty


def arith2(a, b):
    ta, ya = num(a)
    tb, yb = num(b)
    y = float if (ya is float or yb is float) else int
    return coerce(ta, ya, y), coerce(tb, yb, y), y


def truth(v):
    if not is_sym(v):
        if isinstance(v, Choice):
            raise Unsupported("truth of Choice")
        return z3.BoolVal(bool(v))
    if v.ty is bool:
        return v.t
    return v.t != 0


def float_guard(v):
    g = tyguards(v)
    return g.get(float, False)


def mk_num(t, fg):
    """numeric result whose dynamic type is float under guard fg, else int"""
    if fg is True or (z3.is_expr(fg) and z3.is_true(fg)):
        return Sym(t, float)
    if fg is False or (z3.is_expr(fg) and z3.is_false(fg)):
        return Sym(t, int)
    # term must be Real
    if t.sort() != z3.RealSort():
        t = z3.ToReal(t)
    return Sym(t, float, {float: fg, int: znot(fg)})


def merge(c, a, b):
    """value that is `a` if c else `b` (c: z3 Bool or python bool)."""
    if c is True or (z3.is_expr(c) and z3.is_true(c)):
        return a
    if c is False or (z3.is_expr(c) and z3.is_false(c)):
        return b
    if a is b:
        return a
    na, nb = type(a).__name__, type(b).__name__
    if "GDict" in (na, nb) and (isinstance(a, dict) or isinstance(b, dict)):
        from gsv import colsym
        a = colsym.GDict(a) if isinstance(a, dict) else a
        b = colsym.GDict(b) if isinstance(b, dict) else b
    if "GList" in (na, nb) and (isinstance(a, list) or isinstance(b, list)):
        from gsv import colsym
        a, b = colsym._as_glist(a), colsym._as_glist(b)
    if hasattr(a, "_merge") and hasattr(b, "_merge"):
        return a._merge(c, b)
    if isinstance(a, dict) and isinstance(b, dict) and a.keys() == b.keys():
        return {k: merge(c, a[k], b[k]) for k in a}
    if type(a) is dict and type(b) is dict and len(a) < 64 and len(b) < 64:
        # the branches added different keys: a dictionary whose entries are present under guards
        from gsv import colsym
        return colsym.GDict(a)._merge(c, colsym.GDict(b))
    if isinstance(a, (list, tuple)) and type(a) is type(b) and len(a) == len(b):
        return type(a)(merge(c, x, y) for x, y in zip(a, b))
    ya, yb = (pytype(a) if not is_sym(a) else a.ty), (pytype(b) if not is_sym(b) else b.ty)
    if ya is None or yb is None:
        if not is_symbolic(a) and not is_symbolic(b):
            try:
                if type(a) is type(b) and bool(numpy.all(a == b)):
                    return a
            except Exception:
                pass
        alts = []
        for g, v in ((c, a), (znot(c), b)):
            if isinstance(v, Choice):
                alts += [(zand(g, gg), vv) for gg, vv in v.alts]
            elif is_sym(v):
                raise Unsupported("merge of scalar with object")
            else:
                alts.append((g, v))
        return Choice(alts)
    if not is_sym(a) and not is_sym(b) and ya is yb and a == b:
        return a
    ta, _ = lift(a)
    tb, _ = lift(b)
    wide = ya if WIDTH[ya] >= WIDTH[yb] else yb
    ga, gb = tyguards(a), tyguards(b)
    t = z3.If(c, coerce(ta, ya, wide), coerce(tb, yb, wide))
    if ya is yb and len(ga) == 1 and len(gb) == 1:
        return Sym(t, wide)
    dyn = {}
    for T in TYPES:
        g = zor(zand(c, ga.get(T, False)), zand(znot(c), gb.get(T, False)))
        if g is not False:
            dyn[T] = g
    if len(dyn) == 1:
        return Sym(t, wide)
    return Sym(t, wide, dyn)


# --------------------------------------------------------------------------------------
# context (error guards, fp deltas, fork decisions)
# --------------------------------------------------------------------------------------
class Ctx:
    def __init__(self, fp=False, eps_name="d"):
        self.errors = []          # (guard, kind, where)
        self.fp = fp
        self.deltas = []          # z3 Real vars
        self.guard = True         # current path guard (z3 Bool / True)
        self.scopes = []          # fork scopes
        self.where = "?"
        self.nd = 0
        self.eps_name = eps_name
        self.funcs = set()        # qualified names of functions executed from source
        self.assumptions = []     # stated bounds every query must assume (e.g. range(n): n <= limit)
        self.global_overrides = {}  # harness stubs for module globals (each is part of the claim)
        self.key_domain = None      # finite domain of symbolic dictionary keys (stated bound of a harness)
        self.max_forks = 4000

    def err(self, cond, kind):
        g = zand(self.guard, *[a for s in self.scopes for a in s.assumes], cond)
        if g is False:
            return
        g = z3.simplify(zbool(g))
        if z3.is_false(g):
            return
        self.errors.append((g, kind, self.where))

    def delta(self):
        self.nd += 1
        d = z3.Real(f"{self.eps_name}{self.nd}")
        self.deltas.append(d)
        return d

    def fp_constraints(self):
        u = z3.RealVal(1) / z3.RealVal(2 ** 53)
        return [z3.And(d >= -u, d <= u) for d in self.deltas]


CTX = Ctx()


class using:
    def __init__(self, ctx):
        self.ctx = ctx

    def __enter__(self):
        global CTX
        self.old = CTX
        CTX = self.ctx
        return self.ctx

    def __exit__(self, *a):
        global CTX
        CTX = self.old


class guarded:
    """temporarily strengthen the path guard"""

    def __init__(self, g):
        self.g = g

    def __enter__(self):
        self.old = CTX.guard
        CTX.guard = zand(CTX.guard, self.g)

    def __exit__(self, *a):
        CTX.guard = self.old


class Scope:
    def __init__(self):
        self.decisions = []   # [current, n]
        self.pos = 0
        self.assumes = []


def _feasible(extra):
    s = z3.Solver()
    s.set("timeout", 5000)
    for sc in CTX.scopes:
        s.add(*[zbool(a) for a in sc.assumes])
    s.add(zbool(extra))
    return s.check() != z3.unsat


def decide(n, cond_of):
    """pick alternative k in 0..n-1 of the current fork scope; cond_of(k) -> z3 condition"""
    if not CTX.scopes:
        raise Unsupported("fork outside of a scope")
    sc = CTX.scopes[-1]
    i = sc.pos
    sc.pos += 1
    if i >= len(sc.decisions):
        sc.decisions.append([0, n])
    k = sc.decisions[i][0]
    c = cond_of(k)
    if c is False or (z3.is_expr(c) and z3.is_false(c)) or not _feasible(c):
        raise Infeasible()
    sc.assumes.append(c)
    return k


def run_forked(thunk):
    """Run thunk() once per feasible combination of fork decisions; merge results."""
    sc = Scope()
    results = []
    n = 0
    while True:
        sc.pos = 0
        sc.assumes = []
        CTX.scopes.append(sc)
        nerr = len(CTX.errors)
        try:
            out = thunk()
            results.append((zand(*sc.assumes), out))
        except Infeasible:
            del CTX.errors[nerr:]
        finally:
            CTX.scopes.pop()
        n += 1
        if n > CTX.max_forks:
            raise Unsupported("too many forks")
        del sc.decisions[sc.pos:]
        while sc.decisions and sc.decisions[-1][0] + 1 >= sc.decisions[-1][1]:
            sc.decisions.pop()
        if not sc.decisions:
            break
        sc.decisions[-1][0] += 1
    if not results:
        raise Infeasible()
    out = results[-1][1]
    for pc, v in reversed(results[:-1]):
        out = merge(pc, v, out)
    return out


# --------------------------------------------------------------------------------------
# scalar operations with python semantics
# --------------------------------------------------------------------------------------
_OPS = {ast.Add: operator.add, ast.Sub: operator.sub, ast.Mult: operator.mul,
        ast.Div: operator.truediv, ast.FloorDiv: operator.floordiv, ast.Pow: operator.pow,
        ast.Mod: operator.mod, ast.BitAnd: operator.and_, ast.BitOr: operator.or_,
        ast.BitXor: operator.xor, ast.LShift: operator.lshift, ast.RShift: operator.rshift,
        ast.MatMult: operator.matmul}
_CMPS = {ast.Lt: operator.lt, ast.LtE: operator.le, ast.Gt: operator.gt, ast.GtE: operator.ge,
         ast.Eq: operator.eq, ast.NotEq: operator.ne, ast.Is: operator.is_,
         ast.IsNot: operator.is_not, ast.In: lambda x, y: x in y,
         ast.NotIn: lambda x, y: x not in y}


def _fp(t):
    if CTX.fp:
        return t * (1 + CTX.delta())
    return t


def _is_inf(v):
    return (not is_sym(v)) and isinstance(v, (float, numpy.floating)) and abs(float(v)) == INF


def binop(op, a, b):
    if isinstance(a, Choice) or isinstance(b, Choice):
        return map_choice(lambda x, y: binop(op, x, y), a, b)
    if not is_sym(a) and not is_sym(b):
        if not isinstance(a, (Sym, Choice)) and not isinstance(b, (Sym, Choice)):
            try:
                return _OPS[type(op)](a, b)
            except ZeroDivisionError:
                CTX.err(True, "ZeroDivisionError")
                raise PathEnd()
    if not is_sym(a) and not is_sym(b):
        raise Unsupported("binop on objects")
    # one side is an array-like object implementing the reflected op
    for x in (a, b):
        if not is_sym(x) and pytype(x) is None:
            if hasattr(x, "_symarray"):
                return _OPS[type(op)](a, b)
            raise Unsupported(f"binop with {type(x).__name__}")
    if isinstance(op, (ast.BitAnd, ast.BitOr)):
        if tyguards(a).keys() == {bool} and tyguards(b).keys() == {bool}:
            f = z3.And if isinstance(op, ast.BitAnd) else z3.Or
            return Sym(f(truth(a), truth(b)), bool)
        raise Unsupported("bit op on non-bool")
    for u, first in ((a, True), (b, False)):
        if _is_inf(u):
            if isinstance(op, ast.Add):
                return float(u)
            if isinstance(op, ast.Sub):
                return float(u) if first else -float(u)
            CTX.err(True, "non-finite arithmetic")
            if NONFINITE_IS_ERROR[0]:
                # the caller has an obligation that error guards are unreachable and replays non-finite results
                raise PathEnd()
            raise Unsupported("inf in mult/div")
    ta, tb, y = arith2(a, b)
    fg = zor(float_guard(a), float_guard(b))
    if isinstance(op, ast.Add):
        t = ta + tb
    elif isinstance(op, ast.Sub):
        t = ta - tb
    elif isinstance(op, ast.Mult):
        t = ta * tb
    elif isinstance(op, ast.Div):
        CTX.err(tb == 0, "ZeroDivisionError")
        t = coerce(ta, y, float) / coerce(tb, y, float)
        return Sym(_fp(t), float)
    elif isinstance(op, ast.FloorDiv):
        CTX.err(tb == 0, "ZeroDivisionError")
        if y is int:
            # python floor division; z3 int div is euclidean (floors for positive divisor)
            q = z3.If(tb > 0, ta / tb, (-ta) / (-tb))
            return mk_num(q, fg)
        q = z3.ToReal(z3.ToInt(ta / tb))
        return Sym(q, float)
    elif isinstance(op, ast.Mod):
        CTX.err(tb == 0, "ZeroDivisionError")
        if y is int:
            q = z3.If(tb > 0, ta / tb, (-ta) / (-tb))
            return mk_num(ta - q * tb, fg)
        q = z3.ToReal(z3.ToInt(ta / tb))
        return Sym(ta - q * tb, float)
    elif isinstance(op, ast.Pow):
        if not is_sym(b) and pytype(b) is int and 0 <= int(b) <= 6:
            t = z3.RealVal(1) if y is float else z3.IntVal(1)
            for _ in range(int(b)):
                t = t * ta
        else:
            raise Unsupported("pow with symbolic/large exponent")
    else:
        raise Unsupported(f"binop {type(op).__name__}")
    if y is float:
        t = _fp(t)
    return mk_num(t, fg) if y is float else Sym(t, int)


def neg(v):
    if not is_sym(v):
        return -v
    t, y = num(v)
    return Sym(-t, y, None if v.dyn is None else {float: v.dyn.get(float, False),
                                                   int: zor(v.dyn.get(int, False), v.dyn.get(bool, False))})


def py_abs(v):
    if not is_sym(v):
        return abs(v)
    return merge(compare(ast.Lt(), v, 0).t, neg(v), cast_up_bool(v))


def cast_up_bool(v):
    if is_sym(v) and v.ty is bool:
        return Sym(coerce(v.t, bool, int), int)
    return v


def compare(op, a, b):
    if isinstance(a, Choice) or isinstance(b, Choice):
        return map_choice(lambda x, y: compare(op, x, y), a, b)
    if isinstance(op, (ast.In, ast.NotIn)) and type(b).__name__ == "GDict":
        r = b.contains(a)
        if isinstance(op, ast.In):
            return r
        return (not r) if isinstance(r, bool) else Sym(z3.Not(r.t), bool)
    if isinstance(op, (ast.In, ast.NotIn)) and hasattr(a, "_symarray"):
        # numpy: `arr in [..]` -> ambiguous truth value; `arr in {..}` -> unhashable: both raise
        CTX.err(True, "ValueError/TypeError(array in container)")
        raise PathEnd()
    if not is_sym(a) and not is_sym(b) and not (isinstance(op, (ast.In, ast.NotIn)) and type(b).__name__ == "SymSet"):
        try:
            return _CMPS[type(op)](a, b)
        except TypeError as ex:
            raise Unsupported(f"native comparison failed: {ex}")
    if isinstance(op, (ast.In, ast.NotIn)):
        if is_sym(b):
            raise Unsupported("in <symbolic>")
        items = list(b)
        if is_sym(a):
            cs = []
            for x in items:
                if is_sym(x) or pytype(x) is not None:
                    cs.append(compare(ast.Eq(), a, x))
            r = zor(*[truth(c) for c in cs])
        else:
            r = zor(*[truth(compare(ast.Eq(), a, x)) for x in items])
        r = zbool(r)
        return Sym(r if isinstance(op, ast.In) else z3.Not(r), bool)
    if isinstance(op, (ast.Is, ast.IsNot)):
        if a is None or b is None:
            return isinstance(op, ast.IsNot)
        raise Unsupported("is on symbolic")
    for x in (a, b):
        if not is_sym(x) and pytype(x) is None:
            if hasattr(x, "_symarray"):
                if type(x).__name__ not in ("SymArray", "SymSeries", "SymMat"):
                    raise Unsupported(f"comparison with a {type(x).__name__}")
                return _CMPS[type(op)](a, b)
            if isinstance(op, ast.Eq):
                return False
            if isinstance(op, ast.NotEq):
                return True
            raise Unsupported(f"compare with {type(x).__name__}")
    for u, first in ((a, True), (b, False)):
        if _is_inf(u):
            pos = float(u) > 0
            # sym OP inf
            if isinstance(op, (ast.Eq,)):
                return False
            if isinstance(op, (ast.NotEq,)):
                return True
            lt = isinstance(op, (ast.Lt, ast.LtE))
            if first:   # inf OP sym
                return (not pos) if lt else pos
            return pos if lt else (not pos)
    ta, ya = lift(a)
    tb, yb = lift(b)
    if ya is bool and yb is bool and isinstance(op, (ast.Eq, ast.NotEq)):
        return Sym(ta == tb if isinstance(op, ast.Eq) else ta != tb, bool)
    ta, tb, _ = arith2(a, b)
    r = {ast.Lt: ta < tb, ast.LtE: ta <= tb, ast.Gt: ta > tb, ast.GtE: ta >= tb,
         ast.Eq: ta == tb, ast.NotEq: ta != tb}[type(op)]
    return Sym(r, bool)


def map_choice(f, a, b):
    la = a.alts if isinstance(a, Choice) else [(True, a)]
    lb = b.alts if isinstance(b, Choice) else [(True, b)]
    out = None
    for ga, x in la:
        for gb, y in lb:
            g = zand(ga, gb)
            if g is False:
                continue
            with guarded(g):
                v = f(x, y)
            out = v if out is None else merge(g, v, out)
    return out


def py_max(args, is_max=True):
    res = args[0]
    for x in args[1:]:
        c = compare(ast.Gt() if is_max else ast.Lt(), x, res)
        res = merge(truth(c), x, res) if is_sym(c) else (x if c else res)
    return res


def to_float(v):
    if not is_sym(v):
        return float(v)
    t, y = num(v)
    return Sym(coerce(t, y, float), float)


def floor_int(t):
    """Real term -> Int term floor"""
    return z3.ToInt(t)


def to_int(v):
    """python int(): truncation toward zero"""
    if not is_sym(v):
        return int(v)
    t, y = num(v)
    if y is int:
        return Sym(t, int)
    return Sym(z3.If(t >= 0, z3.ToInt(t), -z3.ToInt(-t)), int)


def to_bool(v):
    if not is_sym(v):
        return bool(v)
    return Sym(truth(v), bool)


def round_half_even_int(t):
    """Real term -> Int term, round half to even"""
    h = t + z3.RealVal("1/2")
    f = z3.ToInt(h)
    tie = z3.ToReal(f) == h
    return z3.If(z3.And(tie, f % 2 == 1), f - 1, f)


def np_round(v, n=0):
    if not is_sym(v):
        return numpy.round(v, n)
    if is_sym(n) or not isinstance(n, (int, numpy.integer)):
        raise Unsupported("round with symbolic decimals")
    t, y = num(v)
    if y is int:
        if n >= 0:
            return Sym(t, int)
        raise Unsupported("round of an int to negative decimals")
    if n == 0:
        return Sym(z3.ToReal(round_half_even_int(t)), float)
    # exact-real model of round-half-even at 10**-n (the FP artefacts of x*10**n are outside the model)
    sc = z3.RealVal(10 ** n) if n > 0 else z3.RealVal(f"1/{10 ** (-n)}")
    return Sym(z3.ToReal(round_half_even_int(t * sc)) / sc, float)


def py_round(v, n=None):
    if not is_sym(v):
        return round(v) if n is None else round(v, n)
    if n is not None:
        r = np_round(v, n)
        return r
    t, y = num(v)
    if y is int:
        return Sym(t, int)
    return Sym(round_half_even_int(t), int)


def np_floor(v):
    if not is_sym(v):
        if hasattr(v, "_symarray") and hasattr(v, "e"):
            return type(v)([np_floor(x) for x in v.e], float)
        if isinstance(v, numpy.ndarray) and v.dtype == object:
            from gsv import colsym
            return colsym.SymArray([np_floor(x) for x in v.reshape(-1)], float)
        if isinstance(v, Choice):
            return map_choice(lambda x, _: np_floor(x), v, None)
        return numpy.floor(v)
    t, y = num(v)
    if y is int:
        return Sym(z3.ToReal(t), float)
    return Sym(z3.ToReal(z3.ToInt(t)), float)


def np_ceil(v):
    if not is_sym(v):
        if hasattr(v, "_symarray") and hasattr(v, "e"):
            return type(v)([np_ceil(x) for x in v.e], float)
        if isinstance(v, numpy.ndarray) and v.dtype == object:
            from gsv import colsym
            return colsym.SymArray([np_ceil(x) for x in v.reshape(-1)], float)
        if isinstance(v, Choice):
            return map_choice(lambda x, _: np_ceil(x), v, None)
        return numpy.ceil(v)
    t, y = num(v)
    if y is int:
        return Sym(z3.ToReal(t), float)
    return Sym(-z3.ToReal(z3.ToInt(-t)), float)


def cast(v, ty):
    if ty in (float, "float", numpy.float64):
        return to_float(v)
    if ty in (int, "int", numpy.int64):
        return to_int(v)
    if ty in (bool, "bool", numpy.bool_):
        return to_bool(v)
    raise Unsupported(f"astype {ty}")


def np_where(c, a, b):
    if not is_symbolic(c) and not is_symbolic(a) and not is_symbolic(b):
        return numpy.where(c, a, b)
    for x in (c, a, b):
        if hasattr(x, "_symarray"):
            from gsv import colsym
            return colsym.where(c, a, b)
    if not is_sym(c):
        return a if c else b
    return merge(truth(c), a, b)


def subscript(base, idx):
    """base[idx] with symbolic idx and/or Choice base"""
    if isinstance(base, Choice):
        out = None
        for g, obj in base.alts:
            with guarded(g):
                v = subscript(obj, idx)
            out = v if out is None else merge(g, v, out)
        return out
    if isinstance(idx, Choice):
        out = None
        for g, k in idx.alts:
            with guarded(g):
                v = subscript(base, k)
            out = v if out is None else merge(g, v, out)
        return out
    if hasattr(idx, "_symarray") and not hasattr(base, "_symarray"):
        if isinstance(base, numpy.ndarray) and hasattr(idx, "e"):
            from gsv import colsym
            return colsym.SymArray([subscript(base, i) for i in idx.e])
        # dict[array]: unhashable; list[array]: not an integer scalar -> TypeError in real python
        CTX.err(True, "TypeError(array used as index/key)")
        raise PathEnd()
    if not is_sym(idx):
        if is_sym(base):
            raise Unsupported("subscript of symbolic scalar")
        if isinstance(idx, tuple) and any(is_sym(i) for i in idx):
            # numpy 2-d a[i, j]
            v = base
            for i in idx:
                v = subscript(v, i)
            return v
        try:
            return base[idx]
        except (KeyError, IndexError) as e:
            CTX.err(True, type(e).__name__)
            raise PathEnd()
    if hasattr(base, "_symarray"):
        return base[idx]
    ti, yi = num(idx)
    if yi is float:
        # python raises for float keys into lists; dict lookup by float equals int key
        if not isinstance(base, dict):
            CTX.err(True, "TypeError(float index)")
            raise PathEnd()
    if isinstance(base, dict):
        items = [(k, v) for k, v in base.items() if pytype(k) in (int, bool, float)]
    elif isinstance(base, (list, tuple, numpy.ndarray)):
        n = len(base)
        items = [(k, base[k]) for k in range(n)] + [(k - n, base[k]) for k in range(n)]
    else:
        raise Unsupported(f"symbolic subscript into {type(base).__name__}")
    out = None
    conds = []
    if isinstance(base, (list, tuple, numpy.ndarray)) and any(_is_inf(v) or (pytype(v) is float and v != v) for k, v in items):
        # entries that have no term (+-inf thresholds, NaN): one path per position instead of a merged value
        CTX.err(zor(ti < -n, ti >= n), "IndexError")
        j = decide(len(items), lambda j: ti == items[j][0])
        return items[j][1]
    for k, v in reversed(items):
        c = ti == (int(k) if pytype(k) is not float else const_real(k))
        conds.append(c)
        out = v if out is None else merge(c, v, out)
    CTX.err(znot(zor(*conds)), "KeyError" if isinstance(base, dict) else "IndexError")
    if out is None:
        raise PathEnd()
    return out


def dict_get(base, key, default=None):
    """dict.get(key, default) for a symbolic numeric key into a plain dict"""
    ti, yi = num(key)
    items = [(k, v) for k, v in base.items() if pytype(k) in (int, bool, float)]
    out = default
    for k, v in reversed(items):
        c = ti == (int(k) if pytype(k) is not float else const_real(k))
        out = merge(c, v, out)
    return out


def searchsorted(arr, x, side="left", sorter=None):
    if not is_sym(x):
        return numpy.searchsorted(arr, x, side=side)
    arr = [float(a) for a in arr]
    n = len(arr)
    tx, _ = num(x)

    def cond(k):
        cs = []
        lo = arr[k - 1] if k > 0 else None
        hi = arr[k] if k < n else None
        if lo is not None:
            if lo == INF:
                return False
            if lo != -INF:
                cs.append(const_real(lo) <= tx if side == "right" else const_real(lo) < tx)
        if hi is not None:
            if hi == -INF:
                return False
            if hi != INF:
                cs.append(tx < const_real(hi) if side == "right" else tx <= const_real(hi))
        return zand(*cs)

    k = decide(n + 1, cond)
    return k


def concretize_int(v, lo, hi):
    """fork over the integer values lo..hi of a symbolic int"""
    if not is_sym(v):
        return v
    t, y = num(v)
    CTX.assumptions.append(t <= hi)
    k = decide(hi - lo + 1, lambda k: (t <= lo) if k == 0 else (t == (lo + k)))
    return lo + k


def concretize_choice(v):
    """fork over the alternatives of a Choice"""
    if not isinstance(v, Choice):
        return v
    k = decide(len(v.alts), lambda k: v.alts[k][0])
    return v.alts[k][1]


# --------------------------------------------------------------------------------------
# interpreter
# --------------------------------------------------------------------------------------
_SRC_CACHE = {}


def func_ast(fn):
    key = fn.__code__
    if key not in _SRC_CACHE:
        src = textwrap.dedent(inspect.getsource(fn.__code__))
        tree = ast.parse(src)
        node = tree.body[0]
        if not isinstance(node, (ast.FunctionDef,)):
            raise Unsupported("not a function def")
        _SRC_CACHE[key] = node
    return _SRC_CACHE[key]


INLINE_MODULE_PREFIXES = ("_gettsim", "gettsim", "dags.signature", "gsv_user", "__main__")
INTRINSICS = {}          # callable -> handler(args, kwargs)
TYPE_INTRINSICS = []     # (predicate(f), handler(f, args, kwargs))
RANGE_FORK_LIMIT = 16


def intrinsic(*fs):
    def deco(h):
        for f in fs:
            INTRINSICS[f] = h
        return h
    return deco


class Frame:
    def __init__(self, fn, glob, env, closure=None):
        self.fn = fn
        self.glob = glob
        self.env = env
        self.closure = closure or {}
        self.rets = []
        self.loops = []
        self.base = CTX.guard
        self.params = set(env)       # names bound to the caller's objects at entry

    # -- statements -----------------------------------------------------------------
    def run(self, body):
        g = self.block(body, self.env, True)
        if g is not False:
            self.rets.append((g, None))
        if not self.rets:
            raise PathEnd()
        out = self.rets[-1][1]
        for gg, v in reversed(self.rets[:-1]):
            out = merge(gg, v, out)
        return out

    def block(self, body, env, g):
        if len(body) > 1 and isinstance(body[-1], ast.Raise):
            # an error path is cut at the check that guards it: statements that only build the
            # message of the exception are not executed (stated stub)
            body = body[-1:]
        for st in body:
            g = self.stmt(st, env, g)
            if g is False:
                return False
        return g

    def stmt(self, st, env, g):
        old_where = CTX.where
        CTX.where = f"{getattr(self.fn, '__name__', '?')}:{getattr(st, 'lineno', 0)}"
        old_guard = CTX.guard
        CTX.guard = zand(self.base, g)
        try:
            return self._stmt(st, env, g)
        except PathEnd:
            return False
        finally:
            CTX.where = old_where
            CTX.guard = old_guard

    def assign(self, target, v, env):
        if isinstance(target, ast.Name):
            env[target.id] = v
        elif isinstance(target, (ast.Tuple, ast.List)):
            vs = list(v)
            if len(vs) != len(target.elts):
                raise Unsupported("unpack length")
            for t, x in zip(target.elts, vs):
                self.assign(t, x, env)
        elif isinstance(target, ast.Subscript):
            base = self.ev(target.value, env)
            idx = self.ev(target.slice, env)
            if is_sym(base):
                raise Unsupported("store into symbolic scalar")
            if is_sym(idx) and _plain_mapping(base) and isinstance(target.value, ast.Name):
                base = _to_gdict(base)
                env[target.value.id] = base
            elif is_sym(idx) and not hasattr(base, "_symarray"):
                raise Unsupported("symbolic store index into concrete container")
            base[idx] = v
        elif isinstance(target, ast.Attribute):
            raise Unsupported("attribute store")
        else:
            raise Unsupported(f"assign target {type(target).__name__}")

    def _stmt(self, st, env, g):
        if isinstance(st, ast.Expr):
            if isinstance(st.value, ast.Constant):
                return g
            self.ev(st.value, env)
            return g
        if isinstance(st, ast.Assign):
            v = self.ev(st.value, env)
            for t in st.targets:
                self.assign(t, v, env)
            return g
        if isinstance(st, ast.AnnAssign):
            if st.value is not None:
                self.assign(st.target, self.ev(st.value, env), env)
            return g
        if isinstance(st, ast.AugAssign):
            if isinstance(st.target, ast.Name):
                cur = self.lookup(st.target.id, env)
                res = binop(st.op, cur, self.ev(st.value, env))
                if type(cur).__name__ == "SymArray" and type(res).__name__ == "SymArray" and len(res.e) == len(cur.e):
                    # numpy: an augmented assignment on an array works IN PLACE -- every other name bound to the same
                    # array (the caller's column!) sees the new values; the dtype of the array does not change
                    kc = numpy.dtype(cur.dtype).kind if cur.dtype is not None else None
                    kr = numpy.dtype(res.dtype).kind if res.dtype is not None else None
                    if kc in ("i", "u", "b") and kr == "f":
                        CTX.err(True, "UFuncTypeError(cannot cast the float result of an in-place operation to the integer array)")
                        raise PathEnd()
                    cur.e = list(res.e)
                    env[st.target.id] = cur
                    if st.target.id in getattr(self, "params", ()):
                        # the array is the caller's: the caller's column is overwritten (arguments are copied at entry
                        # of the symbolic call, so the effect is recorded here instead of being propagated)
                        muts = getattr(CTX, "arg_mutations", None)
                        if muts is None:
                            muts = CTX.arg_mutations = []
                        muts.append((getattr(self.fn, "__qualname__", "?"), st.target.id))
                else:
                    env[st.target.id] = res
                return g
            if isinstance(st.target, ast.Subscript):
                base = self.ev(st.target.value, env)
                idx = self.ev(st.target.slice, env)
                if is_sym(idx) and _plain_mapping(base) and isinstance(st.target.value, ast.Name):
                    base = _to_gdict(base)
                    env[st.target.value.id] = base
                cur = subscript(base, idx) if (is_sym(idx) or isinstance(base, Choice)) else base[idx]
                base[idx] = binop(st.op, cur, self.ev(st.value, env))
                return g
            raise Unsupported("augassign target")
        if isinstance(st, ast.Return):
            v = None if st.value is None else self.ev(st.value, env)
            self.rets.append((g, v))
            return False
        if isinstance(st, ast.Pass):
            return g
        if isinstance(st, ast.If):
            c = self.ev(st.test, env)
            if isinstance(c, Choice):
                raise Unsupported("if on Choice")
            if not is_sym(c):
                if hasattr(c, "_symarray"):
                    CTX.err(True, "ValueError(truth value of an array)")
                    raise PathEnd()
                return self.block(st.body if c else st.orelse, env, g)
            ct = truth(c)
            e1, e2 = copy_env(env), copy_env(env)
            g1 = self.block(st.body, e1, zand(g, ct))
            g2 = self.block(st.orelse, e2, zand(g, znot(ct)))
            if g1 is False and g2 is False:
                return False
            if g1 is False:
                env.clear(); env.update(e2); return g2
            if g2 is False:
                env.clear(); env.update(e1); return g1
            merged = {}
            need_fork = False
            for k in set(e1) | set(e2):
                if k in e1 and k in e2:
                    merged[k] = e1[k] if e1[k] is e2[k] else merge(ct, e1[k], e2[k])
                    if _has_choice(merged[k]) and not (_has_choice(e1[k]) or _has_choice(e2[k])):
                        need_fork = True
                else:
                    # defined on one path only (python: NameError on the other if used)
                    merged[k] = e1.get(k, e2.get(k))
            if need_fork:
                # branches assign different non-numeric objects: fork the path instead of merging
                k = decide(2, lambda k: ct if k == 0 else z3.Not(ct))
                env.clear(); env.update(e1 if k == 0 else e2)
                return g1 if k == 0 else g2
            env.update(merged)
            return zor(g1, g2)
        if isinstance(st, ast.For) and type(self.ev(st.iter, env)).__name__ == "GList":
            gl = self.ev(st.iter, env)
            for ge, v in list(gl.entries):
                if ge is False:
                    continue
                before = copy_env(env)
                self.assign(st.target, v, env)
                self.loops.append({"cont": [], "brk": []})
                try:
                    g_end = self.block(st.body, env, zand(g, ge))
                finally:
                    frame = self.loops.pop()
                if frame["brk"]:
                    raise Unsupported("break inside a loop over a guarded list")
                g_in = self._join(env, g_end, frame["cont"])
                # paths on which the entry is absent keep the environment from before the iteration
                if g_in is False:
                    env.clear()
                    env.update(before)
                elif ge is not True:
                    for k in set(env) | set(before):
                        if k in env and k in before:
                            if env[k] is not before[k]:
                                env[k] = merge(zbool(ge), env[k], before[k])
                        elif k in before:
                            env[k] = before[k]
            return g
        if isinstance(st, ast.For):
            it = self.ev(st.iter, env)
            it = self.iterate(it)
            breaks = []                      # (guard, env) of paths that left the loop by `break`
            for v in it:
                self.assign(st.target, v, env)
                self.loops.append({"cont": [], "brk": breaks})
                try:
                    g_end = self.block(st.body, env, g)
                finally:
                    frame = self.loops.pop()
                # paths that ended the iteration by `continue` re-join the fall-through path
                g = self._join(env, g_end, frame["cont"])
                if g is False:
                    break
            if st.orelse and g is not False:
                g = self.block(st.orelse, env, g)
            return self._join(env, g, breaks)
        if isinstance(st, ast.Try):
            n0 = len(CTX.errors)
            g = self.block(st.body, env, g)
            new = CTX.errors[n0:]
            reraises = all(h.body and isinstance(h.body[-1], ast.Raise) for h in st.handlers)
            if new and not reraises:
                raise Unsupported("try/except that handles a symbolic error")
            # every handler re-raises: an error inside the body stays an error of this path
            if g is not False and st.orelse:
                g = self.block(st.orelse, env, g)
            if g is not False and st.finalbody:
                g = self.block(st.finalbody, env, g)
            return g
        if isinstance(st, ast.Continue):
            if not self.loops:
                raise Unsupported("continue outside loop")
            self.loops[-1]["cont"].append((g, copy_env(env)))
            return False
        if isinstance(st, ast.Break):
            if not self.loops:
                raise Unsupported("break outside loop")
            self.loops[-1]["brk"].append((g, copy_env(env)))
            return False
        if isinstance(st, ast.Raise):
            kind = "raise"
            if st.exc is not None:
                e = st.exc
                if isinstance(e, ast.Call):
                    e = e.func
                kind = ast.unparse(e)
            CTX.err(True, kind)
            return False
        if isinstance(st, ast.Assert):
            c = self.ev(st.test, env)
            if is_sym(c):
                CTX.err(z3.Not(truth(c)), "AssertionError")
                return zand(g, truth(c))
            if not c:
                CTX.err(True, "AssertionError")
                return False
            return g
        if isinstance(st, (ast.FunctionDef,)):
            raise Unsupported("nested def")
        if isinstance(st, (ast.Import, ast.ImportFrom)):
            raise Unsupported("import in body")
        raise Unsupported(f"statement {type(st).__name__}")

    def _join(self, env, g, others):
        """merge the environments of paths (guard, env) into `env` (whose path guard is g)"""
        for og, oenv in others:
            if g is False:
                env.clear()
                env.update(oenv)
                g = og
                continue
            for k in set(env) | set(oenv):
                if k in env and k in oenv:
                    if env[k] is not oenv[k]:
                        env[k] = merge(zbool(og), oenv[k], env[k])
                elif k in oenv:
                    env[k] = oenv[k]
            g = zor(g, og)
        return g

    def iterate(self, it):
        if isinstance(it, Choice) or is_sym(it):
            raise Unsupported("iteration over symbolic")
        if hasattr(it, "_symarray"):
            return list(it)
        return list(it)

    # -- expressions ----------------------------------------------------------------
    def lookup(self, name, env):
        if name in env:
            return env[name]
        if name in self.closure:
            return self.closure[name]
        if name in CTX.global_overrides:
            return CTX.global_overrides[name]
        if name in self.glob:
            return self.glob[name]
        if hasattr(builtins, name):
            return getattr(builtins, name)
        raise Unsupported(f"unbound name {name}")

    def ev(self, e, env):
        if isinstance(e, ast.Constant):
            return e.value
        if isinstance(e, ast.Name):
            return self.lookup(e.id, env)
        if isinstance(e, ast.BinOp):
            return binop(e.op, self.ev(e.left, env), self.ev(e.right, env))
        if isinstance(e, ast.UnaryOp):
            v = self.ev(e.operand, env)
            if isinstance(e.op, ast.Not):
                if hasattr(v, "_symarray"):
                    CTX.err(True, "ValueError(truth value of an array)")
                    raise PathEnd()
                return (not v) if not is_sym(v) else Sym(z3.Not(truth(v)), bool)
            if isinstance(e.op, ast.USub):
                return neg(v) if is_sym(v) else -v
            if isinstance(e.op, ast.UAdd):
                return v
            if isinstance(e.op, ast.Invert):
                return ~v
            raise Unsupported("unary op")
        if isinstance(e, ast.BoolOp):
            is_and = isinstance(e.op, ast.And)
            # python: returns an operand, short-circuits
            vals = []
            g = True
            res = None
            v0 = e.values[0]
            if (not is_and and isinstance(v0, ast.Call) and isinstance(v0.func, ast.Attribute) and v0.func.attr == "get"
                    and len(v0.args) == 1 and not v0.keywords):
                # `d.get(k) or w` with a symbolic key: the looked-up value if present and truthy, else w
                base = self.ev(v0.func.value, env)
                key = self.ev(v0.args[0], env)
                if (type(base) is dict or type(base).__name__ == "GDict") and (is_sym(key) or type(base).__name__ == "GDict"):
                    rest_e = e.values[1] if len(e.values) == 2 else ast.BoolOp(op=ast.Or(), values=e.values[1:])
                    w = self.ev(rest_e, env)
                    v = base.lookup(key, w, True) if type(base).__name__ == "GDict" else dict_get(base, key, w)
                    if not is_sym(v):
                        return v if v else w
                    return merge(truth(v), v, w)
            first = self.ev(e.values[0], env)
            res = first
            for nxt in e.values[1:]:
                if hasattr(res, "_symarray"):
                    CTX.err(True, "ValueError(truth value of an array)")
                    raise PathEnd()
                if not is_sym(res):
                    if isinstance(res, Choice):
                        raise Unsupported("boolop on Choice")
                    if (not res) if is_and else bool(res):
                        return res
                    res = self.ev(nxt, env)
                    continue
                tr = truth(res)
                cont = tr if is_and else z3.Not(tr)
                try:
                    with guarded(cont):
                        rest = self.ev(nxt, env)
                except PathEnd:
                    # continuing always raises: path survives only where we short-circuit
                    raise Unsupported("raise inside boolop operand")
                res = merge(cont, rest, res)
            return res
        if isinstance(e, ast.Compare):
            left = self.ev(e.left, env)
            res = None
            for op, c in zip(e.ops, e.comparators):
                if res is not None and is_sym(res):
                    with guarded(truth(res)):
                        right = self.ev(c, env)
                elif res is not None and not res:
                    return res
                else:
                    right = self.ev(c, env)
                r = compare(op, left, right)
                if res is None:
                    res = r
                elif is_sym(res) or is_sym(r):
                    res = Sym(z3.And(truth(res), truth(r)), bool)
                else:
                    res = res and r
                left = right
            return res
        if isinstance(e, ast.IfExp):
            c = self.ev(e.test, env)
            if not is_sym(c):
                if hasattr(c, "_symarray"):
                    CTX.err(True, "ValueError(truth value of an array)")
                    raise PathEnd()
                return self.ev(e.body if c else e.orelse, env)
            ct = truth(c)
            with guarded(ct):
                a = self.ev(e.body, env)
            with guarded(z3.Not(ct)):
                b = self.ev(e.orelse, env)
            return merge(ct, a, b)
        if isinstance(e, ast.Subscript):
            base = self.ev(e.value, env)
            idx = self.ev(e.slice, env)
            if is_symbolic(idx) or isinstance(base, Choice):
                return subscript(base, idx)
            try:
                return base[idx]
            except (KeyError, IndexError, TypeError) as ex:
                CTX.err(True, type(ex).__name__)
                raise PathEnd()
        if isinstance(e, ast.Slice):
            return slice(None if e.lower is None else self.ev(e.lower, env),
                         None if e.upper is None else self.ev(e.upper, env),
                         None if e.step is None else self.ev(e.step, env))
        if isinstance(e, ast.Tuple):
            return tuple(self.elts(e.elts, env))
        if isinstance(e, ast.List):
            return list(self.elts(e.elts, env))
        if isinstance(e, ast.Set):
            return set(self.elts(e.elts, env))
        if isinstance(e, ast.Dict):
            out = {}
            for k, v in zip(e.keys, e.values):
                if k is None:
                    out.update(self.ev(v, env))
                else:
                    out[self.ev(k, env)] = self.ev(v, env)
            return out
        if isinstance(e, ast.Attribute):
            base = self.ev(e.value, env)
            if isinstance(base, Choice):
                raise Unsupported("attribute of Choice")
            if is_sym(base):
                if e.attr in ("round", "astype"):
                    return getattr(base, e.attr)
                if e.attr == "dtype":
                    return numpy.dtype(base.ty)
                raise Unsupported(f"attribute {e.attr} of symbolic scalar")
            if type(base) in (float, int, bool) and not hasattr(base, e.attr):
                # a value that is a numpy scalar in the real run (result of numpy arithmetic) and a plain python
                # number here because the path made it concrete
                base = numpy.float64(base) if type(base) is float else (numpy.bool_(base) if type(base) is bool else numpy.int64(base))
            return getattr(base, e.attr)
        if isinstance(e, ast.Call):
            return self.call(e, env)
        if isinstance(e, (ast.ListComp, ast.GeneratorExp, ast.SetComp)):
            out = []
            guards = []
            self.comp(e.generators, 0, env, lambda en, g=True: (out.append(self.ev(e.elt, en)), guards.append(g)))
            if any(g is not True for g in guards):
                from gsv import colsym
                return colsym.GList(list(zip(guards, out)))
            return set(out) if isinstance(e, ast.SetComp) else out
        if isinstance(e, ast.DictComp):
            out = {}

            def add(en):
                k = self.ev(e.key, en)
                if is_symbolic(k):
                    raise Unsupported("symbolic dict key")
                out[k] = self.ev(e.value, en)
            self.comp(e.generators, 0, env, add)
            return out
        if isinstance(e, ast.JoinedStr):
            parts = []
            for v in e.values:
                if isinstance(v, ast.Constant):
                    parts.append(str(v.value))
                else:
                    x = self.ev(v.value, env)
                    if is_symbolic(x):
                        parts.append("<symbolic>")
                    else:
                        conv = {115: str, 114: repr, 97: ascii}.get(v.conversion, None)
                        x = conv(x) if conv else x
                        spec = self.ev(v.format_spec, env) if v.format_spec is not None else ""
                        parts.append(format(x, spec))
            return "".join(parts)
        if isinstance(e, ast.Starred):
            raise Unsupported("starred outside call")
        if isinstance(e, ast.Lambda):
            raise Unsupported("lambda")
        if isinstance(e, ast.NamedExpr):
            v = self.ev(e.value, env)
            env[e.target.id] = v
            return v
        raise Unsupported(f"expression {type(e).__name__}")

    def elts(self, elts, env):
        out = []
        for x in elts:
            if isinstance(x, ast.Starred):
                out.extend(self.iterate(self.ev(x.value, env)))
            else:
                out.append(self.ev(x, env))
        return out

    def comp(self, gens, i, env, emit, guard=True):
        if i == len(gens):
            if guard is True:
                emit(env)
            else:
                emit(env, guard)
            return
        gen = gens[i]
        for v in self.iterate(self.ev(gen.iter, env)):
            en = dict(env)
            self.assign(gen.target, v, en)
            ok = True
            g = guard
            for cond in gen.ifs:
                c = self.ev(cond, en)
                if is_sym(c):
                    g = zand(g, truth(c))       # element present under a guard
                    continue
                if not c:
                    ok = False
                    break
            if ok:
                self.comp(gens, i + 1, en, emit, g)

    def _setdefault(self, call, env):
        """d.setdefault(k, default) with a symbolic key: (guarded dict, key) after storing the default where absent"""
        base = self.ev(call.func.value, env)
        key = self.ev(call.args[0], env)
        default = self.ev(call.args[1], env) if len(call.args) > 1 else None
        if not is_sym(key) and type(base).__name__ != "GDict":
            return None
        if _plain_mapping(base):
            if not isinstance(call.func.value, ast.Name):
                raise Unsupported("setdefault with a symbolic key on an unnamed mapping")
            base = _to_gdict(base)
            env[call.func.value.id] = base
        if type(base).__name__ != "GDict":
            raise Unsupported("setdefault with a symbolic key")
        absent = truth(base.contains(key))
        absent = znot(absent) if not isinstance(absent, bool) else (not absent)
        if absent is not False:
            # store the default only where the key is absent
            filled = base._copy()
            filled.store(key, default)
            merged = filled._merge(zbool(absent), base) if absent is not True else filled
            base.slots = merged.slots
        return base, key

    def call(self, e, env):
        if (isinstance(e.func, ast.Attribute) and e.func.attr == "append" and isinstance(e.func.value, ast.Call)
                and isinstance(e.func.value.func, ast.Attribute) and e.func.value.func.attr == "setdefault"
                and e.func.value.args and not e.func.value.keywords):
            got = self._setdefault(e.func.value, env)
            if got is not None:
                base, key = got
                return base.ref(key).append(*[self.ev(a, env) for a in e.args])
        if (isinstance(e.func, ast.Attribute) and e.func.attr == "setdefault" and e.args and not e.keywords):
            got = self._setdefault(e, env)
            if got is not None:
                base, key = got
                return base.lookup(key)
        if (isinstance(e.func, ast.Attribute) and e.func.attr == "append" and isinstance(e.func.value, ast.Subscript)):
            base = self.ev(e.func.value.value, env)
            if type(base).__name__ == "GDict":
                ref = base.ref(self.ev(e.func.value.slice, env))
                return ref.append(*[self.ev(a, env) for a in e.args])
        f = self.ev(e.func, env)
        args = []
        for a in e.args:
            if isinstance(a, ast.Starred):
                args.extend(self.iterate(self.ev(a.value, env)))
            else:
                args.append(self.ev(a, env))
        kwargs = {}
        for k in e.keywords:
            if k.arg is None:
                kwargs.update(self.ev(k.value, env))
            else:
                kwargs[k.arg] = self.ev(k.value, env)
        return call_value(f, args, kwargs)


def _plain_mapping(x):
    import collections
    return type(x) is dict or type(x) is collections.Counter or type(x) is collections.defaultdict


def _to_gdict(x):
    """dict / Counter / defaultdict -> guarded dictionary (Counter and defaultdict keep their default)"""
    import collections
    from gsv import colsym
    d = colsym.GDict(dict(x))
    if type(x) is collections.Counter:
        d.default, d.has_default = 0, True
    elif type(x) is collections.defaultdict and x.default_factory is not None:
        d.default, d.has_default = x.default_factory(), True
    return d


def copy_env(env):
    out = {}
    for k, v in env.items():
        if hasattr(v, "_copy"):
            out[k] = v._copy()
        elif type(v) is list:
            out[k] = list(v)          # lists may be mutated in place inside a branch (append)
        elif type(v) is dict and len(v) < 256:
            out[k] = dict(v)
        elif type(v) is set:
            out[k] = set(v)
        else:
            out[k] = v
    return out


def _has_choice(v):
    if isinstance(v, Choice):
        return True
    if isinstance(v, dict):
        return any(isinstance(x, Choice) for x in v.values())
    if isinstance(v, (list, tuple)):
        return any(isinstance(x, Choice) for x in v)
    return False


def _any_symbolic(args, kwargs):
    return any(is_symbolic(a) for a in args) or any(is_symbolic(a) for a in kwargs.values())


def _native(f, args, kwargs):
    """run a python callable natively; an exception it raises is an error on this path"""
    try:
        return f(*args, **kwargs)
    except (Unsupported, Infeasible, PathEnd):
        raise
    except Exception as ex:   # noqa: BLE001 -- real python would raise here
        if isinstance(ex, (TypeError, Unsupported)) and _any_symbolic(list(args), dict(kwargs)):
            # an artefact of symbolic operands inside a native container operation, not real behaviour
            raise Unsupported(f"native call {getattr(f, '__name__', f)} on symbolic operands: {ex}")
        CTX.err(True, type(ex).__name__)
        raise PathEnd()


def call_value(f, args, kwargs):
    """call f(*args, **kwargs) where args may be symbolic"""
    if isinstance(f, Choice):
        raise Unsupported("call of Choice")
    if any(isinstance(a, Choice) for a in args) or any(isinstance(a, Choice) for a in kwargs.values()):
        args = [concretize_choice(a) for a in args]
        kwargs = {k: concretize_choice(a) for k, a in kwargs.items()}
    h = None
    try:
        h = INTRINSICS.get(f)
    except TypeError:
        h = None
    if h is not None:
        try:
            return h(args, kwargs)
        except TypeError as ex:
            raise Unsupported(f"intrinsic {getattr(f, '__name__', f)}: {ex}")
    for pred, hh in TYPE_INTRINSICS:
        if pred(f):
            return hh(f, args, kwargs)
    if isinstance(f, functools.partial):
        kw = dict(f.keywords)
        kw.update(kwargs)
        return call_value(f.func, list(f.args) + list(args), kw)
    if isinstance(f, numpy.vectorize):
        return call_vectorized(f, args, kwargs)
    if inspect.ismethod(f):
        slf = f.__self__
        if hasattr(slf, "_symarray") or isinstance(slf, Sym):
            return _native(f.__func__, [slf, *args], kwargs)
        if not _any_symbolic(args, kwargs) and not is_symbolic(slf):
            return _native(f, args, kwargs)
        if type(slf) is dict and f.__name__ == "get" and args and is_sym(args[0]) and not kwargs:
            return dict_get(slf, *args)
        if isinstance(slf, (dict, list)) and f.__name__ in ("get", "append", "extend", "update",
                                                            "items", "values", "keys", "setdefault",
                                                            "pop", "copy", "index"):
            return _native(f, args, kwargs)
        raise Unsupported(f"method {f.__name__} with symbolic args")
    if inspect.isbuiltin(f) or isinstance(f, type) or not inspect.isfunction(f):
        slf = getattr(f, "__self__", None)
        if slf is not None and (hasattr(slf, "_symarray") or isinstance(slf, Sym)):
            return _native(f, args, kwargs)
        if not _any_symbolic(args, kwargs):
            return _native(f, args, kwargs)
        if type(slf) is dict and getattr(f, "__name__", "") == "get" and args and is_sym(args[0]) and not kwargs:
            return dict_get(slf, *args)
        if isinstance(slf, (dict, list)) and getattr(f, "__name__", "") in (
                "get", "append", "extend", "update", "items", "values", "keys", "setdefault",
                "pop", "copy"):
            return _native(f, args, kwargs)
        if f in (list, tuple):
            return _native(f, args, kwargs)
        if f is dict:
            return _native(dict, args, kwargs)
        if f in (zip, enumerate, reversed, iter, next):
            return _native(f, args, kwargs)
        if isinstance(f, type) and issubclass(f, BaseException):
            return f("<msg>")
        raise Unsupported(f"call of {getattr(f, '__name__', f)!r} with symbolic args")
    # python function
    mod = getattr(f, "__module__", "") or ""
    if not _any_symbolic(args, kwargs) and not mod.startswith(INLINE_MODULE_PREFIXES):
        return _native(f, args, kwargs)
    if not mod.startswith(INLINE_MODULE_PREFIXES) and not getattr(f, "_gsv_inline", False):
        raise Unsupported(f"call of foreign function {mod}.{f.__name__} with symbolic args")
    return call_function(f, args, kwargs)


def call_function(fn, args, kwargs):
    """symbolically execute the source of python function fn (own fork scope)"""
    node = func_ast(fn)
    sig = inspect.signature(fn, follow_wrapped=False)
    # wrappers set __signature__; the code's own parameters are what we must bind
    sig = _code_signature(fn, node)
    try:
        ba = sig.bind(*args, **kwargs)
    except TypeError as ex:
        CTX.err(True, f"TypeError({ex})")
        raise PathEnd()
    ba.apply_defaults()
    closure = {}
    if fn.__closure__:
        for name, cell in zip(fn.__code__.co_freevars, fn.__closure__):
            try:
                closure[name] = cell.cell_contents
            except ValueError:
                pass
    CTX.funcs.add(f"{fn.__module__}.{fn.__qualname__}")

    def thunk():
        env = {}
        for k, v in ba.arguments.items():
            env[k] = v._copy() if hasattr(v, "_copy") else v
        fr = Frame(fn, fn.__globals__, env, closure)
        return fr.run(node.body)

    return run_forked(thunk)


_SIG_CACHE = {}


def _code_signature(fn, node):
    key = fn.__code__
    if key in _SIG_CACHE:
        return _SIG_CACHE[key]
    a = node.args
    params = []
    defaults = list(fn.__defaults__ or ())
    pos = [*a.posonlyargs, *a.args]
    nd = len(pos) - len(defaults)
    for i, p in enumerate(pos):
        d = defaults[i - nd] if i >= nd else inspect.Parameter.empty
        kind = inspect.Parameter.POSITIONAL_ONLY if i < len(a.posonlyargs) else inspect.Parameter.POSITIONAL_OR_KEYWORD
        params.append(inspect.Parameter(p.arg, kind, default=d))
    if a.vararg:
        params.append(inspect.Parameter(a.vararg.arg, inspect.Parameter.VAR_POSITIONAL))
    kwd = fn.__kwdefaults__ or {}
    for p in a.kwonlyargs:
        params.append(inspect.Parameter(p.arg, inspect.Parameter.KEYWORD_ONLY,
                                        default=kwd.get(p.arg, inspect.Parameter.empty)))
    if a.kwarg:
        params.append(inspect.Parameter(a.kwarg.arg, inspect.Parameter.VAR_KEYWORD))
    _SIG_CACHE[key] = inspect.Signature(params)
    return _SIG_CACHE[key]


def call_vectorized(vf, args, kwargs):
    """numpy.vectorize(pyfunc)(...): element-wise application.

    Scalars: the python function itself.  SymArrays: per element, plus the
    otypes-from-first-element rule when VECTORIZE_STRICT is set (see colsym)."""
    arrs = [a for a in list(args) + list(kwargs.values()) if hasattr(a, "_symarray")]
    if not arrs:
        if not _any_symbolic(args, kwargs):
            out = vf(*args, **kwargs)
            if isinstance(out, numpy.ndarray) and out.ndim == 0:
                out = out[()]      # 0-d array of a parameter-only rule (broadcast by numpy later)
            return out
        return call_value(vf.pyfunc, args, kwargs)
    from gsv import colsym
    return colsym.vectorize_apply(vf, args, kwargs)


# --------------------------------------------------------------------------------------
# intrinsics: builtins and numpy scalar functions
# --------------------------------------------------------------------------------------
def _flat_args(args):
    if len(args) == 1 and not is_sym(args[0]) and not isinstance(args[0], Choice):
        a = args[0]
        if hasattr(a, "_symarray"):
            return list(a)
        return list(a)
    return list(args)


@intrinsic(max)
def _i_max(args, kw):
    if kw:
        raise Unsupported("max with keywords")
    xs = _flat_args(args)
    if not xs:
        CTX.err(True, "ValueError(max of empty)")
        raise PathEnd()
    if not any(is_symbolic(x) for x in xs):
        return max(xs)
    return py_max(xs, True)


@intrinsic(min)
def _i_min(args, kw):
    if kw:
        raise Unsupported("min with keywords")
    xs = _flat_args(args)
    if not xs:
        CTX.err(True, "ValueError(min of empty)")
        raise PathEnd()
    if not any(is_symbolic(x) for x in xs):
        return min(xs)
    return py_max(xs, False)


@intrinsic(sum)
def _i_sum(args, kw):
    xs = list(args[0]) if not hasattr(args[0], "_symarray") else list(args[0])
    start = args[1] if len(args) > 1 else kw.get("start", 0)
    out = start
    for x in xs:
        out = binop(ast.Add(), out, x)
    return out


@intrinsic(any)
def _i_any(args, kw):
    xs = list(args[0])
    if not any(is_sym(x) for x in xs):
        return any(xs)
    return Sym(zbool(zor(*[truth(x) for x in xs])), bool)


@intrinsic(all)
def _i_all(args, kw):
    xs = list(args[0])
    if not any(is_sym(x) for x in xs):
        return all(xs)
    return Sym(zbool(zand(*[truth(x) for x in xs])), bool)


@intrinsic(abs)
def _i_abs(args, kw):
    return py_abs(args[0])


def _scalar_of_array(args, what):
    """float(arr) / int(arr): numpy converts only arrays of exactly one element, anything else is a TypeError"""
    a = args[0] if args else None
    if a is not None and hasattr(a, "_symarray") and hasattr(a, "e") and len(a.e) != 1:
        CTX.err(True, f"TypeError(only length-1 arrays can be converted to Python scalars: {what})")
        raise PathEnd()


@intrinsic(float)
def _i_float(args, kw):
    _scalar_of_array(args, "float")
    if args and not is_sym(args[0]):
        return _native(float, args, kw)
    return to_float(args[0]) if args else 0.0


@intrinsic(int)
def _i_int(args, kw):
    _scalar_of_array(args, "int")
    if args and not is_sym(args[0]):
        return _native(int, args, kw)
    return to_int(args[0]) if args else 0


@intrinsic(bool)
def _i_bool(args, kw):
    return to_bool(args[0]) if args else False


@intrinsic(round)
def _i_round(args, kw):
    return py_round(*args, **kw)


@intrinsic(len)
def _i_len(args, kw):
    a = args[0]
    if hasattr(a, "_symlen"):
        return a._symlen()
    return len(a)


@intrinsic(range)
def _i_range(args, kw):
    if any(hasattr(a, "_symarray") for a in args):
        CTX.err(True, "TypeError(range of an array)")
        raise PathEnd()
    if not any(is_sym(a) for a in args):
        return range(*args)
    conc = []
    for a in args:
        if is_sym(a):
            conc.append(concretize_int(a, -1, RANGE_FORK_LIMIT))
        else:
            conc.append(a)
    return range(*conc)


@intrinsic(isinstance)
def _i_isinstance(args, kw):
    v, cls = args
    if is_sym(v):
        if v.dyn is not None:
            raise Unsupported("isinstance on value of data-dependent type")
        proto = {bool: True, int: 1, float: 1.0}[v.ty]
        return isinstance(proto, cls)
    return isinstance(v, cls)


@intrinsic(sorted)
def _i_sorted(args, kw):
    if _any_symbolic(args, kw):
        raise Unsupported("sorted on symbolic")
    return sorted(*args, **kw)


@intrinsic(numpy.searchsorted)
def _i_searchsorted(args, kw):
    if any(hasattr(a, "_symarray") for a in list(args[:2]) + [kw.get("sorter")]):
        from gsv import colsym
        return colsym.m_searchsorted_arr(*args, **kw)
    return searchsorted(*args, **kw)


@intrinsic(numpy.where)
def _i_where(args, kw):
    return np_where(*args)


@intrinsic(numpy.ceil)
def _i_ceil(args, kw):
    return np_ceil(args[0])


@intrinsic(numpy.floor)
def _i_floor(args, kw):
    return np_floor(args[0])


@intrinsic(math.ceil)
def _i_mceil(args, kw):
    v = args[0]
    return to_int(np_ceil(v)) if is_sym(v) else math.ceil(v)


@intrinsic(math.floor)
def _i_mfloor(args, kw):
    v = args[0]
    return to_int(np_floor(v)) if is_sym(v) else math.floor(v)


def _trunc_real(t):
    return z3.If(t >= 0, z3.ToInt(t), -z3.ToInt(-t))


@intrinsic(math.trunc)
def _i_mtrunc(args, kw):
    v = args[0]
    if not is_sym(v):
        return math.trunc(v)
    t, y = num(v)
    return Sym(t, int) if y is int else Sym(_trunc_real(t), int)


def _np_trunc(v):
    if not is_sym(v):
        return numpy.trunc(v)
    t, y = num(v)
    return Sym(z3.ToReal(t), float) if y is int else Sym(z3.ToReal(_trunc_real(t)), float)


def _np_rint(v):
    return np_round(v, 0)


def _np_abs(v):
    return py_abs(v) if is_sym(v) else numpy.abs(v)


def _np_fabs(v):
    return to_float(py_abs(v)) if is_sym(v) else numpy.fabs(v)


def _np_sign(v):
    if not is_sym(v):
        return numpy.sign(v)
    t, y = num(v)
    if y is int:
        return Sym(z3.If(t > 0, 1, z3.If(t < 0, -1, 0)), int)
    return Sym(z3.If(t > 0, z3.RealVal(1), z3.If(t < 0, z3.RealVal(-1), z3.RealVal(0))), float)


@intrinsic(math.fabs)
def _i_mfabs(args, kw):
    return _np_fabs(args[0]) if is_sym(args[0]) else math.fabs(args[0])


@intrinsic(math.copysign)
def _i_copysign(args, kw):
    a, b = args
    if not is_sym(a) and not is_sym(b):
        return math.copysign(a, b)
    if is_sym(b):
        # the sign of a symbolic zero (-0.0) is not represented in the real model
        tb, _ = num(b)
        CTX.assumptions.append(tb != 0)
        neg_b = tb < 0
    else:
        neg_b = z3.BoolVal(math.copysign(1.0, b) < 0)
    mag = to_float(py_abs(a)) if is_sym(a) else abs(float(a))
    return merge(neg_b, neg(mag) if is_sym(mag) else -mag, mag)


@intrinsic(divmod)
def _i_divmod(args, kw):
    a, b = args
    return (binop(ast.FloorDiv(), a, b), binop(ast.Mod(), a, b))


@intrinsic(math.isnan)
def _i_misnan(args, kw):
    if is_sym(args[0]):
        return False      # symbolic numbers are finite reals (NaN / inf inputs are outside the claim)
    return math.isnan(args[0])


@intrinsic(math.isinf, numpy.isinf)
def _i_isinf(args, kw):
    if is_sym(args[0]):
        return False
    return bool(numpy.isinf(args[0]))


@intrinsic(math.isfinite, numpy.isfinite)
def _i_isfinite(args, kw):
    if is_sym(args[0]):
        return True
    if hasattr(args[0], "_symarray"):
        from gsv import colsym
        return colsym.elementwise(lambda x: True if is_sym(x) else bool(numpy.isfinite(x)), args[0])
    return bool(numpy.isfinite(args[0])) if numpy.ndim(args[0]) == 0 else numpy.isfinite(args[0])


@intrinsic(numpy.round, numpy.around)
def _i_npround(args, kw):
    return np_round(*args, **kw)


def _elementwise(f):
    def h(args, kw):
        for x in args:
            if hasattr(x, "_symarray"):
                from gsv import colsym
                return colsym.elementwise(f, *args)
        return f(*args)
    return h


def _logical_and(a, b):
    if not is_sym(a) and not is_sym(b):
        return bool(a) and bool(b)
    return Sym(z3.And(truth(a), truth(b)), bool)


def _logical_or(a, b):
    if not is_sym(a) and not is_sym(b):
        return bool(a) or bool(b)
    return Sym(z3.Or(truth(a), truth(b)), bool)


def _logical_not(a):
    if not is_sym(a):
        return not a
    return Sym(z3.Not(truth(a)), bool)


def _np_maximum(a, b):
    # numpy.maximum(a, b): where(a >= b, a, b) up to NaN handling; result dtype promoted
    if not is_sym(a) and not is_sym(b):
        return numpy.maximum(a, b)
    ta, tb, y = arith2(a, b)
    return mk_num(z3.If(ta >= tb, ta, tb), zor(float_guard(a), float_guard(b))) if y is float else Sym(z3.If(ta >= tb, ta, tb), int)


def _np_minimum(a, b):
    if not is_sym(a) and not is_sym(b):
        return numpy.minimum(a, b)
    ta, tb, y = arith2(a, b)
    return mk_num(z3.If(ta <= tb, ta, tb), zor(float_guard(a), float_guard(b))) if y is float else Sym(z3.If(ta <= tb, ta, tb), int)


def _i_getattr(args, kw):
    """getattr(obj, "name"[, default]) with a literal name: a symbolic scalar is a python float/int/bool (no numpy attributes),
    a symbolic column answers like the array it stands for"""
    if len(args) < 2 or not isinstance(args[1], str):
        raise Unsupported("getattr with a computed name")
    obj, name = args[0], args[1]
    if isinstance(obj, Sym):
        if hasattr(obj.ty if isinstance(obj.ty, type) else float, name):
            raise Unsupported(f"attribute {name} of a symbolic scalar")
        if len(args) < 3:
            raise Unsupported(f"getattr of a missing attribute {name} without default")
        return args[2]
    return getattr(obj, *args[1:])


INTRINSICS[getattr] = _i_getattr
INTRINSICS[numpy.logical_and] = _elementwise(_logical_and)
INTRINSICS[numpy.logical_or] = _elementwise(_logical_or)
INTRINSICS[numpy.logical_not] = _elementwise(_logical_not)
INTRINSICS[numpy.maximum] = _elementwise(_np_maximum)
INTRINSICS[numpy.minimum] = _elementwise(_np_minimum)
def _np_isclose(a, b, rtol=1e-05, atol=1e-08, equal_nan=False):
    if not is_sym(a) and not is_sym(b):
        return bool(numpy.isclose(a, b, rtol=rtol, atol=atol))
    ta, tb, _ = arith2(a, b)
    ta = ta if ta.sort() == z3.RealSort() else z3.ToReal(ta)
    tb = tb if tb.sort() == z3.RealSort() else z3.ToReal(tb)
    d = ta - tb
    absd = z3.If(d >= 0, d, -d)
    absb = z3.If(tb >= 0, tb, -tb)
    return Sym(absd <= const_real(float(atol)) + const_real(float(rtol)) * absb, bool)


def _i_isclose(args, kw):
    extra = {k: v for k, v in kw.items() if k in ("rtol", "atol", "equal_nan")}
    if len(args) > 2:
        extra.update(dict(zip(("rtol", "atol", "equal_nan"), args[2:])))
    f = lambda a, b: _np_isclose(a, b, **extra)   # noqa: E731
    for x in args[:2]:
        if hasattr(x, "_symarray"):
            from gsv import colsym
            return colsym.elementwise(f, *args[:2])
    return f(*args[:2])


INTRINSICS[numpy.isclose] = _i_isclose
INTRINSICS[numpy.fmax] = _elementwise(_np_maximum)     # differ from maximum only on NaN (outside the model)
INTRINSICS[numpy.fmin] = _elementwise(_np_minimum)
INTRINSICS[numpy.trunc] = _elementwise(_np_trunc)
INTRINSICS[numpy.fix] = _elementwise(_np_trunc)
INTRINSICS[numpy.rint] = _elementwise(_np_rint)
INTRINSICS[numpy.abs] = _elementwise(_np_abs)
INTRINSICS[numpy.absolute] = _elementwise(_np_abs)
INTRINSICS[numpy.fabs] = _elementwise(_np_fabs)
INTRINSICS[numpy.sign] = _elementwise(_np_sign)


@intrinsic(numpy.isnan)
def _i_isnan(args, kw):
    if is_sym(args[0]):
        return False      # symbolic reals are never NaN (stated: NaN inputs outside the claim)
    if hasattr(args[0], "_symarray"):
        from gsv import colsym
        return colsym.elementwise(lambda x: False if is_sym(x) else bool(numpy.isnan(x)), args[0])
    return numpy.isnan(args[0])


# --------------------------------------------------------------------------------------
# top-level helpers
# --------------------------------------------------------------------------------------
def sym_for(name, ty):
    if ty is float:
        return Sym(z3.Real(name), float)
    if ty is int:
        return Sym(z3.Int(name), int)
    if ty is bool:
        return Sym(z3.Bool(name), bool)
    raise Unsupported(f"no symbolic value for annotation {ty}")


def run(fn, args=None, kwargs=None, ctx=None):
    """symbolically call fn; returns (value, ctx).  ctx.errors holds the error guards."""
    ctx = ctx or Ctx()
    with using(ctx):
        try:
            v = call_value(fn, list(args or []), dict(kwargs or {}))
        except PathEnd:
            v = None
        except Infeasible:
            v = None
    return v, ctx


def term_of(v, want=None):
    t, y = lift(v)
    if want is not None:
        t = coerce(t, y, want)
    return t


def values_equal(a, b):
    """z3 Bool: python values a and b are numerically equal"""
    ta, ya = lift(a)
    tb, yb = lift(b)
    if ya is bool and yb is bool:
        return ta == tb
    x, y, _ = arith2(a, b)
    return x == y


def model_value(m, v):
    """evaluate value under model -> python scalar"""
    if not is_sym(v):
        return v
    r = m.eval(v.t, model_completion=True)
    return z3_to_py(r)


def z3_to_py(r):
    if z3.is_true(r):
        return True
    if z3.is_false(r):
        return False
    if z3.is_int_value(r):
        return r.as_long()
    if z3.is_rational_value(r):
        return float(fractions.Fraction(r.numerator_as_long(), r.denominator_as_long()))
    if z3.is_algebraic_value(r):
        return float(r.approx(20).as_fraction())
    raise Unsupported(f"cannot convert model value {r}")


def z3_to_fraction(r):
    if z3.is_int_value(r):
        return fractions.Fraction(r.as_long())
    if z3.is_rational_value(r):
        return fractions.Fraction(r.numerator_as_long(), r.denominator_as_long())
    if z3.is_algebraic_value(r):
        return r.approx(30).as_fraction()
    raise Unsupported(f"cannot convert model value {r}")
