"""Entry point: ./check <id> --tier quick|thorough | --replay <path>"""
import argparse
import importlib
import os
import sys
import traceback

from gsv import common


def main():
    ap = argparse.ArgumentParser()
    ap.add_argument("pid")
    ap.add_argument("--tier", default=os.environ.get("VERIF_TIER", "quick"), choices=["quick", "thorough"])
    ap.add_argument("--replay")
    a = ap.parse_args()
    try:
        mod = importlib.import_module(f"gsv.checks.{a.pid.lower()}")
    except ModuleNotFoundError as e:
        print(f"no check for {a.pid}: {e}")
        return common.EXIT_HARNESS
    try:
        if a.replay:
            return mod.replay(a.replay)
        return mod.run(a.tier)
    except common.HarnessError as e:
        print(f"HARNESS-ERROR {a.pid}: {e}")
        return common.EXIT_HARNESS
    except Exception:
        traceback.print_exc()
        print(f"HARNESS-ERROR {a.pid}: unexpected exception")
        return common.EXIT_HARNESS


if __name__ == "__main__":
    sys.exit(main())
