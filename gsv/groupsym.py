"""z3-level obligations on the real eg / ehe / sn / bg / wthh grouping functions, executed by rulesym
(the fg function is in gsv.fgsym).  Same claims as the CrossHair conditions of
`harness_groupings.py`; CrossHair stays as an independent second engine at N=3.
"""
from __future__ import annotations

import functools
import itertools
import random

import numpy
import z3

from gsv import common
from gsv import rulesym as R
from gsv.colsym import SymArray
from gsv.fgsym import LABS, same_partition


def ints(name, n):
    return [z3.Int(f"{name}{i}") for i in range(n)]


def bools(name, n):
    return [z3.Bool(f"{name}{i}") for i in range(n)]


def col(xs, order, ty):
    return SymArray([R.Sym(xs[i], ty) for i in order], ty)


def ptr_col(xs, order, labels):
    out = []
    n = len(xs)
    for i in order:
        t = z3.IntVal(-1)
        for j in range(n):
            t = z3.If(xs[i] == j, z3.IntVal(labels[j]), t)
        out.append(R.Sym(t, int))
    return SymArray(out, int)


# parameter variant in force for the grouping function under test (see gt.param_variants): the pinned
# tree's grouping functions take no parameters, so there is exactly one (empty) variant each
_EXTRA = {}
_TAG = [""]


def _extra(fn):
    return _EXTRA.get(getattr(fn, "__name__", ""), {})


def _real(fn):
    kw = _extra(fn)
    return functools.partial(fn, **kw) if kw else fn


def run(fn, kwargs, labels):
    kwargs = {**kwargs, **_extra(fn)}
    ctx = R.Ctx()
    ctx.key_domain = list(labels) if labels is not None else None
    v, ctx = R.run(fn, kwargs=kwargs, ctx=ctx)
    raises = R.zbool(R.zor(*[g for g, k, w in ctx.errors]))
    return v, raises, list(ctx.assumptions), ctx.funcs


def by_person(v, order, n):
    ids = [None] * n
    for pos, i in enumerate(order):
        ids[i] = R.term_of(v.e[pos])
    return ids


def valid_ptr(sp, n):
    cs = []
    for i in range(n):
        cs += [sp[i] >= -1, sp[i] < n, sp[i] != i]
        for j in range(n):
            cs.append(z3.Implies(sp[i] == j, sp[j] == i))
    return cs


def partner_function(ck, name, fn, argname, n, tier_orders=True):
    """eg_id / ehe_id: partners and only partners share; every row order; relabelling; separability"""
    sp = ints("sp", n)
    pre = valid_ptr(sp, n)
    labels = LABS[n][0]

    def ids_for(order, labs):
        v, raises, assume, funcs = run(fn, {"p_id": SymArray([labs[i] for i in order], int), argname: ptr_col(sp, order, labs)}, labs)
        return by_person(v, order, n), raises, assume, funcs
    base, raises, assume, funcs = ids_for(range(n), labels)
    ck.functions |= funcs
    obs = [(f"{name}_def", f"{name}: persons share the unit iff they are partners",
            pre + assume + [z3.Or(raises, z3.Or([(base[a] == base[b]) != (sp[a] == b) for a in range(n) for b in range(a + 1, n)]))])]
    for pi in list(itertools.permutations(range(n)))[1:]:
        ids2, r2, a2, _ = ids_for(pi, labels)
        obs.append((f"{name}_order{list(pi)}", f"{name}: same partition for this row order", pre + assume + a2 + [z3.Or(r2, z3.Not(same_partition(base, ids2, n)))]))
    for lab in LABS[n][1:]:
        ids2, r2, a2, _ = ids_for(range(n), lab)
        obs.append((f"{name}_relabel{lab}", f"{name}: same partition under sparse unsorted labels", pre + assume + a2 + [z3.Or(r2, z3.Not(same_partition(base, ids2, n)))]))
    discharge(ck, obs, n, {"sp": sp}, lambda vals, nm: partner_real(fn, argname, vals, nm, n))


def partner_real(fn, argname, vals, nm, n):
    sp = vals["sp"]
    labels = LABS[n][0]

    def part(order, labs):
        lab = lambda p: -1 if p < 0 else labs[p]   # noqa: E731
        ids = _real(fn)(numpy.array([labs[i] for i in order]), numpy.array([lab(sp[i]) for i in order]))
        back = [None] * n
        for pos, i in enumerate(order):
            back[i] = int(ids[pos])
        return [[back[a] == back[b] for b in range(n)] for a in range(n)]
    base = part(range(n), labels)
    want = [[a == b or sp[a] == b for b in range(n)] for a in range(n)]
    if nm.endswith("_def"):
        return base != want
    if "_order" in nm:
        return any(part(pi, labels) != base for pi in itertools.permutations(range(n)))
    return any(part(range(n), lab) != base for lab in LABS[n][1:])


def sn_function(ck, n):
    from _gettsim.groupings import sn_id_numpy
    sp, gv = ints("sp", n), bools("gv", n)
    pre = valid_ptr(sp, n)
    consistent = [z3.Implies(sp[i] == j, gv[i] == gv[j]) for i in range(n) for j in range(n)]
    labels = LABS[n][0]

    def ids_for(order, labs):
        v, raises, assume, funcs = run(sn_id_numpy, {"p_id": SymArray([labs[i] for i in order], int), "p_id_ehepartner": ptr_col(sp, order, labs),
                                                     "gemeinsam_veranlagt": col(gv, order, bool)}, labs)
        return (by_person(v, order, n) if v is not None else None), raises, assume, funcs
    base, raises, assume, funcs = ids_for(range(n), labels)
    ck.functions |= funcs
    obs = [("sn_def", "sn: spouses share the tax unit iff jointly assessed; consistent flags never raise",
            pre + consistent + assume + [z3.Or(raises, z3.Or([(base[a] == base[b]) != z3.And(sp[a] == b, gv[a]) for a in range(n) for b in range(a + 1, n)]))])]
    contradictory = z3.Or([z3.And(sp[i] == j, gv[i] != gv[j]) for i in range(n) for j in range(n) if i != j])
    for pi in list(itertools.permutations(range(n))):
        ids2, r2, a2, _ = ids_for(pi, labels)
        if list(pi) != list(range(n)):
            obs.append((f"sn_order{list(pi)}", "sn: same partition for this row order", pre + consistent + assume + a2 + [z3.Or(r2, z3.Not(same_partition(base, ids2, n)))]))
        obs.append((f"sn_raises{list(pi)}", "sn: contradictory joint-assessment flags between spouses raise in this row order", pre + a2 + [contradictory, z3.Not(r2)]))
    for lab in LABS[n][1:]:
        ids2, r2, a2, _ = ids_for(range(n), lab)
        obs.append((f"sn_relabel{lab}", "sn: same partition under sparse unsorted labels", pre + consistent + assume + a2 + [z3.Or(r2, z3.Not(same_partition(base, ids2, n)))]))
    discharge(ck, obs, n, {"sp": sp, "gv": gv}, lambda vals, nm: sn_real(vals, nm, n))


def sn_real(vals, nm, n):
    from _gettsim.groupings import sn_id_numpy
    sp, gv = vals["sp"], vals["gv"]
    labels = LABS[n][0]

    def part(order, labs):
        lab = lambda p: -1 if p < 0 else labs[p]   # noqa: E731
        try:
            ids = _real(sn_id_numpy)(numpy.array([labs[i] for i in order]), numpy.array([lab(sp[i]) for i in order]), numpy.array([gv[i] for i in order]))
        except ValueError:
            return "raises"
        back = [None] * n
        for pos, i in enumerate(order):
            back[i] = int(ids[pos])
        return [[back[a] == back[b] for b in range(n)] for a in range(n)]
    base = part(range(n), labels)
    if nm == "sn_def":
        want = [[a == b or (sp[a] == b and gv[a]) for b in range(n)] for a in range(n)]
        return base != want
    if nm.startswith("sn_raises"):
        return any(part(pi, labels) != "raises" for pi in itertools.permutations(range(n)))
    if nm.startswith("sn_order"):
        return any(part(pi, labels) != base for pi in itertools.permutations(range(n)))
    return any(part(range(n), lab) != base for lab in LABS[n][1:])


def bg_function(ck, n):
    from _gettsim.groupings import bg_id_numpy
    fg, alt, eb = ints("fg", n), ints("alt", n), bools("eb", n)
    pre = [z3.And(f >= 0, f <= 50) for f in fg] + [z3.And(a >= 0, a <= 100) for a in alt]
    dom = list(range(51))

    def ids_for(order):
        ctxdom = None
        v, raises, assume, funcs = run(bg_id_numpy, {"fg_id": col(fg, order, int), "alter": col(alt, order, int), "eigenbedarf_gedeckt": col(eb, order, bool)}, sorted(set(dom)))
        return by_person(v, order, n), raises, assume, funcs
    # the key domain of the Counter is the set of family ids: keep it small and explicit
    global _BG_DOM
    pre = [z3.Or([f == k for k in (0, 1, 2, 7, 40)]) for f in fg] + [z3.And(a >= 0, a <= 100) for a in alt]

    def ids_for(order):   # noqa: F811
        v, raises, assume, funcs = run(bg_id_numpy, {"fg_id": col(fg, order, int), "alter": col(alt, order, int), "eigenbedarf_gedeckt": col(eb, order, bool)}, [0, 1, 2, 7, 40])
        return by_person(v, order, n), raises, assume, funcs
    base, raises, assume, funcs = ids_for(range(n))
    ck.functions |= funcs
    self_suff = [z3.And(alt[i] < 25, eb[i]) for i in range(n)]
    want = lambda a, b: z3.And(fg[a] == fg[b], z3.Not(self_suff[a]), z3.Not(self_suff[b]))   # noqa: E731
    obs = [("bg_def", "bg: same needs unit iff same family unit and neither is a self-sufficient child under 25 (each a singleton); ids of different family units differ",
            pre + assume + [z3.Or(raises, z3.Or([(base[a] == base[b]) != want(a, b) for a in range(n) for b in range(a + 1, n)]))])]
    for pi in list(itertools.permutations(range(n)))[1:]:
        ids2, r2, a2, _ = ids_for(pi)
        obs.append((f"bg_order{list(pi)}", "bg: same partition for this row order", pre + assume + a2 + [z3.Or(r2, z3.Not(same_partition(base, ids2, n)))]))
    discharge(ck, obs, n, {"fg": fg, "alt": alt, "eb": eb}, lambda vals, nm: bg_real(vals, nm, n))


def bg_real(vals, nm, n):
    from _gettsim.groupings import bg_id_numpy
    fg, alt, eb = vals["fg"], vals["alt"], vals["eb"]

    def part(order):
        ids = _real(bg_id_numpy)(numpy.array([fg[i] for i in order]), numpy.array([alt[i] for i in order]), numpy.array([eb[i] for i in order]))
        back = [None] * n
        for pos, i in enumerate(order):
            back[i] = int(ids[pos])
        return [[back[a] == back[b] for b in range(n)] for a in range(n)]
    base = part(range(n))
    if nm == "bg_def":
        ss = [alt[i] < 25 and eb[i] for i in range(n)]
        want = [[a == b or (fg[a] == fg[b] and not ss[a] and not ss[b]) for b in range(n)] for a in range(n)]
        return base != want
    return any(part(pi) != base for pi in itertools.permutations(range(n)))


def wthh_function(ck, n):
    from _gettsim.groupings import wthh_id_numpy
    hh, v1, v2 = ints("hh", n), bools("v1", n), bools("v2", n)
    pre = [z3.And(h >= 0, h <= 10 ** 6) for h in hh]

    def ids_for(order):
        v, raises, assume, funcs = run(wthh_id_numpy, {"hh_id": col(hh, order, int), "wohngeld_vorrang_bg": col(v1, order, bool),
                                                       "wohngeld_kinderzuschl_vorrang_bg": col(v2, order, bool)}, None)
        return by_person(v, order, n), raises, assume, funcs
    base, raises, assume, funcs = ids_for(range(n))
    ck.functions |= funcs
    want = lambda a, b: z3.And(hh[a] == hh[b], z3.Or(v1[a], v2[a]) == z3.Or(v1[b], v2[b]))   # noqa: E731
    obs = [("wthh_def", "wthh: same part-household iff same household and same priority outcome; ids of different households differ",
            pre + assume + [z3.Or(raises, z3.Or([(base[a] == base[b]) != want(a, b) for a in range(n) for b in range(a + 1, n)]))])]
    for pi in list(itertools.permutations(range(n)))[1:]:
        ids2, r2, a2, _ = ids_for(pi)
        obs.append((f"wthh_order{list(pi)}", "wthh: same partition for this row order", pre + a2 + [z3.Or(r2, z3.Not(same_partition(base, ids2, n)))]))
    discharge(ck, obs, n, {"hh": hh, "v1": v1, "v2": v2}, lambda vals, nm: wthh_real(vals, nm, n))


def wthh_sep_function(ck, n):
    """rows of A (the first na) get the same partition whether or not the households of B are in the data"""
    from _gettsim.groupings import wthh_id_numpy
    hh, v1, v2 = ints("hh", n), bools("v1", n), bools("v2", n)
    pre = [z3.And(h >= 0, h <= 10 ** 6) for h in hh]

    def ids_for(rows):
        v, raises, assume, funcs = run(wthh_id_numpy, {"hh_id": col(hh, rows, int), "wohngeld_vorrang_bg": col(v1, rows, bool),
                                                       "wohngeld_kinderzuschl_vorrang_bg": col(v2, rows, bool)}, None)
        return by_person(v, rows, len(rows)), raises, assume, funcs
    full, raises, assume, funcs = ids_for(range(n))
    ck.functions |= funcs
    obs = []
    for na in range(1, n):
        alone, r2, a2, _ = ids_for(range(na))
        disjoint = [hh[a] != hh[b] for a in range(na) for b in range(na, n)]
        obs.append((f"wthh_sep[{na}]", "wthh: the households A alone and A together with unrelated households B get the same partition of A",
                    pre + assume + a2 + disjoint + [z3.Or(raises != r2, z3.Or([(full[a] == full[b]) != (alone[a] == alone[b]) for a in range(na) for b in range(a + 1, na)]))]))
    discharge(ck, obs, n, {"hh": hh, "v1": v1, "v2": v2}, lambda vals, nm: wthh_real(vals, nm, n))


def wthh_real(vals, nm, n):
    from _gettsim.groupings import wthh_id_numpy
    hh, v1, v2 = vals["hh"], vals["v1"], vals["v2"]

    def part(order):
        ids = _real(wthh_id_numpy)(numpy.array([hh[i] for i in order]), numpy.array([v1[i] for i in order]), numpy.array([v2[i] for i in order]))
        back = [None] * n
        for pos, i in enumerate(order):
            back[i] = int(ids[pos])
        return [[back[a] == back[b] for b in range(n)] for a in range(n)]
    if nm.startswith("wthh_sep["):
        na = int(nm[len("wthh_sep["):-1])

        def part_of(rows):
            try:
                ids = _real(wthh_id_numpy)(numpy.array([hh[i] for i in rows]), numpy.array([v1[i] for i in rows]), numpy.array([v2[i] for i in rows]))
            except Exception as e:   # noqa: BLE001
                return f"raises {type(e).__name__}"
            return [[int(ids[a]) == int(ids[b]) for b in range(na)] for a in range(na)]
        return part_of(range(n)) != part_of(range(na))
    base = part(range(n))
    if nm == "wthh_def":
        want = [[a == b or (hh[a] == hh[b] and ((v1[a] or v2[a]) == (v1[b] or v2[b]))) for b in range(n)] for a in range(n)]
        return base != want
    return any(part(pi) != base for pi in itertools.permutations(range(n)))


def discharge(ck, obs, n, syms, real):
    for name, claim, cons in obs:
        r, m = ck.oblige(f"{name} N={n}{_TAG[0]}", cons, 120,
                         sample=None if not name.endswith("_def") else {"condition": name, "claim": claim, "persons": n, "engine": "rulesym + z3 on the real grouping function"})
        ck.nontrivial.add((name.split("[")[0], n))
        if r == "sat":
            vals = {}
            for k, xs in syms.items():
                vals[k] = [(z3.is_true(m.eval(x, model_completion=True)) if z3.is_bool(x) else m.eval(x, model_completion=True).as_long()) for x in xs]
            if real(vals, name):
                ck.violation([name.split("[")[0]], f"{name} ({claim}){_TAG[0]} fails for N={n}: {vals}",
                             {"kind": "groupsym", "name": name, "vals": vals, "n": n, "variant": _TAG[0].replace(" params@", "")})
            else:
                common.spurious(ck.pid, f"{name}: model {vals} does not reproduce on the real function")


def _for_variants(ck, fn, body):
    from gsv import gt
    vs = gt.param_variants(fn)
    ck.extra.setdefault("parameter_variants", {})[fn.__name__] = [lab or "none (takes no parameters)" for lab, _ in vs]
    for lab, kw in vs:
        _EXTRA[fn.__name__] = kw
        _TAG[0] = f" params@{lab}" if lab else ""
        try:
            body()
        except R.Unsupported as e:
            ck.not_encoded[f"{fn.__name__}{_TAG[0]}"] = str(e)[:160]
            ck.inconclusive.append(f"{fn.__name__}{_TAG[0]}: not encodable ({str(e)[:100]})")
        finally:
            _EXTRA.pop(fn.__name__, None)
            _TAG[0] = ""


def set_variant(fn, label):
    from gsv import gt
    for lab, kw in gt.param_variants(fn):
        if lab == label:
            _EXTRA[fn.__name__] = kw
            return
    raise common.HarnessError(f"no parameter variant {label!r} of {fn.__name__}")


def run_all(ck, n, which=("eg", "ehe", "sn", "bg", "wthh")):
    from _gettsim import groupings as G
    if "eg" in which:
        _for_variants(ck, G.eg_id_numpy, lambda: partner_function(ck, "eg", G.eg_id_numpy, "p_id_einstandspartner", n))
    if "ehe" in which:
        _for_variants(ck, G.ehe_id_numpy, lambda: partner_function(ck, "ehe", G.ehe_id_numpy, "p_id_ehepartner", n))
    if "sn" in which:
        _for_variants(ck, G.sn_id_numpy, lambda: sn_function(ck, n))
    if "bg" in which:
        _for_variants(ck, G.bg_id_numpy, lambda: bg_function(ck, n))
    if "wthh" in which:
        _for_variants(ck, G.wthh_id_numpy, lambda: wthh_function(ck, n))
    if "wthh_sep" in which:
        _for_variants(ck, G.wthh_id_numpy, lambda: wthh_sep_function(ck, n))


def replay(d):
    """re-evaluate a recorded groupsym counterexample on the real function (exit code semantics: True = reproduces)"""
    from _gettsim import groupings as G
    name, vals, n = d["name"], d["vals"], d["n"]
    kind = name.split("_")[0]
    fn = {"eg": G.eg_id_numpy, "ehe": G.ehe_id_numpy, "sn": G.sn_id_numpy, "bg": G.bg_id_numpy, "wthh": G.wthh_id_numpy}[kind]
    if d.get("variant"):
        set_variant(fn, d["variant"])
    if kind == "eg":
        return bool(partner_real(fn, "p_id_einstandspartner", vals, name, n))
    if kind == "ehe":
        return bool(partner_real(fn, "p_id_ehepartner", vals, name, n))
    return bool({"sn": sn_real, "bg": bg_real, "wthh": wthh_real}[kind](vals, name, n))
