"""Template of the CrossHair harness for _gettsim.groupings (written to a scratch file per run).

The real functions of /repo's groupings.py are executed symbolically by CrossHair; only
`numpy.asarray` is stubbed to `list` so that results stay symbolic.  Person labels are the canonical
0..N-1; relabelling is a separate condition without permutations.
"""

TEMPLATE = r'''
from typing import List
import itertools
import _gettsim.groupings as G


class _NP:
    @staticmethod
    def asarray(x):
        return list(x)


G.numpy = _NP      # stub: keep results as python lists (no realisation at the numpy boundary)


class _Bound:
    """grouping functions with their *_params arguments (none on the pinned tree) bound to the parameters
    in force latest; the z3 engine (fgsym/groupsym) covers every parameter variant"""
    def __init__(self, mod):
        self._mod = mod

    def __getattr__(self, name):
        import inspect
        f = getattr(self._mod, name)
        if not callable(f) or not any(a.endswith("_params") for a in inspect.signature(f).parameters):
            return f
        from gsv import gt
        return gt.bound(f)


G = _Bound(G)
N = __N__
P = list(range(N))
PERMS = [list(p) for p in itertools.permutations(range(N))][1:]


def _perm(x, pi):
    return [x[j] for j in pi]


def _same_part(base, out, pi):
    for a in range(N):
        for b in range(a + 1, N):
            if (base[pi[a]] == base[pi[b]]) != (out[a] == out[b]):
                return False
    return True


def _valid_ptr(sp):
    """symmetric partner-type pointer over canonical labels"""
    if len(sp) != N:
        return False
    for i in range(N):
        if not (-1 <= sp[i] < N) or sp[i] == i:
            return False
        if sp[i] >= 0 and sp[sp[i]] != i:
            return False
    return True


# ------------------------------------------------------------------ eg / ehe ---------------
def check_eg(ep: List[int]) -> bool:
    """
    pre: _valid_ptr(ep)
    post: _
    """
    base = G.eg_id_numpy(P, ep)
    for a in range(N):
        for b in range(a + 1, N):
            if (base[a] == base[b]) != (ep[a] == b):
                return False
    for pi in PERMS:
        if not _same_part(base, G.eg_id_numpy(_perm(P, pi), _perm(ep, pi)), pi):
            return False
    return True


def check_eg_twin(ep: List[int]) -> bool:
    """
    pre: _valid_ptr(ep)
    post: False
    """
    G.eg_id_numpy(P, ep)
    return True


def check_ehe(sp: List[int]) -> bool:
    """
    pre: _valid_ptr(sp)
    post: _
    """
    base = G.ehe_id_numpy(P, sp)
    for a in range(N):
        for b in range(a + 1, N):
            if (base[a] == base[b]) != (sp[a] == b):
                return False
    for pi in PERMS:
        if not _same_part(base, G.ehe_id_numpy(_perm(P, pi), _perm(sp, pi)), pi):
            return False
    return True


# ------------------------------------------------------------------ sn ---------------------
def check_sn(sp: List[int], gv: List[bool]) -> bool:
    """
    pre: _valid_ptr(sp) and len(gv) == N
    pre: all(sp[i] < 0 or gv[i] == gv[sp[i]] for i in range(N))
    post: _
    """
    base = G.sn_id_numpy(P, sp, gv)
    for a in range(N):
        for b in range(a + 1, N):
            if (base[a] == base[b]) != (sp[a] == b and gv[a]):
                return False
    for pi in PERMS:
        if not _same_part(base, G.sn_id_numpy(_perm(P, pi), _perm(sp, pi), _perm(gv, pi)), pi):
            return False
    return True


def check_sn_raises(sp: List[int], gv: List[bool], k: int) -> bool:
    """
    pre: _valid_ptr(sp) and len(gv) == N and 0 <= k < len(PERMS) + 1
    pre: any(sp[i] >= 0 and gv[i] != gv[sp[i]] for i in range(N))
    post: _
    """
    pi = ([list(range(N))] + PERMS)[k]
    try:
        G.sn_id_numpy(_perm(P, pi), _perm(sp, pi), _perm(gv, pi))
    except ValueError:
        return True
    return False


def check_sn_twin(sp: List[int], gv: List[bool]) -> bool:
    """
    pre: _valid_ptr(sp) and len(gv) == N
    pre: all(sp[i] < 0 or gv[i] == gv[sp[i]] for i in range(N))
    post: False
    """
    G.sn_id_numpy(P, sp, gv)
    return True


# ------------------------------------------------------------------ bg ---------------------
def check_bg(fg: List[int], alt: List[int], eb: List[bool]) -> bool:
    """
    pre: len(fg) == N and len(alt) == N and len(eb) == N
    pre: all(0 <= f < N for f in fg) and all(0 <= a <= 100 for a in alt)
    post: _
    """
    base = G.bg_id_numpy(fg, alt, eb)
    for a in range(N):
        for b in range(a + 1, N):
            sa = alt[a] < 25 and eb[a]
            sb = alt[b] < 25 and eb[b]
            want = (fg[a] == fg[b]) and not sa and not sb
            if (base[a] == base[b]) != want:
                return False
    for pi in PERMS:
        if not _same_part(base, G.bg_id_numpy(_perm(fg, pi), _perm(alt, pi), _perm(eb, pi)), pi):
            return False
    return True


# ------------------------------------------------------------------ wthh -------------------
def check_wthh(hh: List[int], v1: List[bool], v2: List[bool]) -> bool:
    """
    pre: len(hh) == N and len(v1) == N and len(v2) == N and all(0 <= h <= 50 for h in hh)
    post: _
    """
    base = G.wthh_id_numpy(hh, v1, v2)
    for a in range(N):
        for b in range(a + 1, N):
            want = hh[a] == hh[b] and ((v1[a] or v2[a]) == (v1[b] or v2[b]))
            if (base[a] == base[b]) != want:
                return False
    for pi in PERMS:
        if not _same_part(base, G.wthh_id_numpy(_perm(hh, pi), _perm(v1, pi), _perm(v2, pi)), pi):
            return False
    return True


# ------------------------------------------------------------------ fg ---------------------
FIX_EP = __FIX_EP__
FIX_HH = __FIX_HH__


def _valid_fam(hh, alt, ep, e1, e2):
    if not (len(hh) == len(alt) == len(ep) == len(e1) == len(e2) == N):
        return False
    if FIX_EP is not None and ep != FIX_EP:
        return False
    if FIX_HH is not None and hh != FIX_HH:
        return False
    if not _valid_ptr(ep):
        return False
    for i in range(N):
        if not (0 <= hh[i] <= 1 and alt[i] in AGES):
            return False
        for q in (e1[i], e2[i]):
            if not (-1 <= q < N) or q == i:
                return False
            if q >= 0 and alt[q] < alt[i] + 14:
                return False                      # parents are older (acyclic parent graph)
            if q >= 0 and q == ep[i]:
                return False                      # a parent is not one's partner
        if e1[i] >= 0 and e1[i] == e2[i]:
            return False
        if ep[i] >= 0 and hh[ep[i]] != hh[i]:
            return False                          # Einstandspartner share the household
    return True


AGES = [2, 20, 40, 60]      # one representative age per generation (under/over 25; parents one generation up)
EXCL = __EXCL__     # structural classes excluded from the fg conditions (listed known findings)


def _classes(hh, alt, ep, e1, e2):
    """structural classes of a family structure that fg_id_numpy is known to mishandle"""
    out = []
    for c in range(N):
        ps = [q for q in (e1[c], e2[c]) if q >= 0]
        if ep[c] >= 0 and alt[c] < 25 and any(hh[q] == hh[c] for q in ps):
            out.append("child-with-partner")          # co-resident child under 25 who has an own partner
        co = [q for q in ps if hh[q] == hh[c]]
        if len(co) == 2 and ep[co[0]] != co[1]:
            out.append("two-nonpartner-parents")      # both parents co-resident but not a couple
        for q in ps:
            if ep[q] >= 0 and ep[q] not in ps and hh[q] == hh[c]:
                out.append("stepchild")               # a parent's partner is not the child's parent
    return out


def _not_excluded(hh, alt, ep, e1, e2):
    return not any(t in EXCL for t in _classes(hh, alt, ep, e1, e2))


def _children(i, e1, e2):
    return [c for c in range(N) if e1[c] == i or e2[c] == i]


def _qualified_child(c, p, hh, alt, ep, e1, e2):
    """c is a co-resident, childless child under 25 without own partner of parent p"""
    return ((e1[c] == p or e2[c] == p) and hh[c] == hh[p] and alt[c] < 25
            and len(_children(c, e1, e2)) == 0 and ep[c] < 0)


def _unambiguous(c, hh, ep, e1, e2):
    """all co-resident parents of c are one person or one couple"""
    ps = [q for q in (e1[c], e2[c]) if q >= 0 and hh[q] == hh[c]]
    return len(ps) <= 1 or ep[ps[0]] == ps[1]


def check_fg_partner(hh: List[int], alt: List[int], ep: List[int], e1: List[int], e2: List[int]) -> bool:
    """
    pre: _valid_fam(hh, alt, ep, e1, e2) and _not_excluded(hh, alt, ep, e1, e2)
    post: _
    """
    fg = G.fg_id_numpy(P, hh, alt, ep, e1, e2)
    return all(ep[i] < 0 or fg[i] == fg[ep[i]] for i in range(N))


def check_fg_child(hh: List[int], alt: List[int], ep: List[int], e1: List[int], e2: List[int]) -> bool:
    """
    pre: _valid_fam(hh, alt, ep, e1, e2) and _not_excluded(hh, alt, ep, e1, e2)
    post: _
    """
    fg = G.fg_id_numpy(P, hh, alt, ep, e1, e2)
    for c in range(N):
        for p in range(N):
            if c != p and _qualified_child(c, p, hh, alt, ep, e1, e2) and _unambiguous(c, hh, ep, e1, e2):
                if fg[c] != fg[p]:
                    return False
                if ep[p] >= 0 and fg[c] != fg[ep[p]]:
                    return False
    return True


def _linked(a, b, ep, e1, e2):
    return ep[a] == b or e1[a] == b or e2[a] == b or e1[b] == a or e2[b] == a


def _connected(a, b, ep, e1, e2):
    seen = [a]
    todo = [a]
    while todo:
        x = todo.pop()
        for y in range(N):
            if y not in seen and _linked(x, y, ep, e1, e2):
                seen.append(y)
                todo.append(y)
    return b in seen


def check_fg_nopath(hh: List[int], alt: List[int], ep: List[int], e1: List[int], e2: List[int]) -> bool:
    """
    pre: _valid_fam(hh, alt, ep, e1, e2) and _not_excluded(hh, alt, ep, e1, e2)
    post: _
    """
    fg = G.fg_id_numpy(P, hh, alt, ep, e1, e2)
    for a in range(N):
        for b in range(a + 1, N):
            if fg[a] == fg[b] and not _connected(a, b, ep, e1, e2):
                return False
            if fg[a] == fg[b] and hh[a] != hh[b]:
                return False                     # family unit within the household
    return True


def check_fg_order(hh: List[int], alt: List[int], ep: List[int], e1: List[int], e2: List[int]) -> bool:
    """
    pre: _valid_fam(hh, alt, ep, e1, e2) and _not_excluded(hh, alt, ep, e1, e2)
    post: _
    """
    base = G.fg_id_numpy(P, hh, alt, ep, e1, e2)
    for pi in PERMS:
        out = G.fg_id_numpy(_perm(P, pi), _perm(hh, pi), _perm(alt, pi), _perm(ep, pi), _perm(e1, pi), _perm(e2, pi))
        if not _same_part(base, out, pi):
            return False
    return True


def check_fg_twin(hh: List[int], alt: List[int], ep: List[int], e1: List[int], e2: List[int]) -> bool:
    """
    pre: _valid_fam(hh, alt, ep, e1, e2)
    pre: any(x >= 0 for x in e1) and any(x >= 0 for x in ep)
    post: False
    """
    G.fg_id_numpy(P, hh, alt, ep, e1, e2)
    return True


# ------------------------------------------------------------------ relabelling / separability
LABS = [[7, 3, 11, 5, 2][:N], [40, 0, 12, 33, 8][:N], [1, 2, 4, 8, 16][:N]]     # unsorted, sparse, non-contiguous


def _relabel(ptr, lab):
    return [(-1 if q < 0 else lab[q]) for q in ptr]


def check_relabel_eg(ep: List[int]) -> bool:
    """
    pre: _valid_ptr(ep)
    post: _
    """
    base = G.eg_id_numpy(P, ep)
    return all(_same_part(base, G.eg_id_numpy(lab, _relabel(ep, lab)), P) for lab in LABS)


def check_relabel_sn(sp: List[int], gv: List[bool]) -> bool:
    """
    pre: _valid_ptr(sp) and len(gv) == N
    pre: all(sp[i] < 0 or gv[i] == gv[sp[i]] for i in range(N))
    post: _
    """
    base = G.sn_id_numpy(P, sp, gv)
    return all(_same_part(base, G.sn_id_numpy(lab, _relabel(sp, lab), gv), P) for lab in LABS)


def check_relabel_fg(hh: List[int], alt: List[int], ep: List[int], e1: List[int], e2: List[int]) -> bool:
    """
    pre: _valid_fam(hh, alt, ep, e1, e2) and _not_excluded(hh, alt, ep, e1, e2)
    post: _
    """
    base = G.fg_id_numpy(P, hh, alt, ep, e1, e2)
    for k, lab in enumerate(LABS):
        out = G.fg_id_numpy(lab, [h * 7 + 3 * k for h in hh], alt, _relabel(ep, lab), _relabel(e1, lab), _relabel(e2, lab))
        if not _same_part(base, out, P):
            return False
    return True
'''


def render(n, excl=(), fix_ep=None, fix_hh=None):
    """fix_ep / fix_hh: case split -- the partner pointer / household vector is concrete in this file"""
    t = TEMPLATE.replace("__N__", str(n)).replace("__EXCL__", repr(list(excl)))
    t = t.replace("__FIX_EP__", repr(fix_ep)).replace("__FIX_HH__", repr(fix_hh))
    return t
