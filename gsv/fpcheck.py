"""Bit-precise re-check of a real-arithmetic obligation (IEEE double, round-to-nearest-even).

The column encoders treat floats as reals, so `(T + a) - T` *is* `a` for them.  Where a property says that some
inputs must not influence a result at all (C02: another household's values), equality over the reals is not
enough: a term that mentions the foreign values can differ from its foreign-free twin by a rounding error, and a
rounding error flips a `>` on a statutory limit.  `translate` rebuilds the z3 term produced by the symbolic
execution of the real code over Float64 (same DAG, every Real constant `x` becomes the Float64 constant `x!fp`,
every `+ - * /` the RNE operation; Int and Bool structure is kept), and `differs` asks z3 whether the two
Float64 terms can differ for finite inputs of magnitude <= 1e9.  The summation order inside one library call
is the model's, not the library's: a model found here is only reported after it reproduces bit for bit on the
real function (the caller replays it)."""
import fractions
import time

import z3

F64 = z3.Float64()
RNE = z3.RNE()


class NoFP(Exception):
    pass


def real_consts(t, acc=None, seen=None):
    """names of the uninterpreted Real constants of term t"""
    acc = set() if acc is None else acc
    seen = set() if seen is None else seen
    stack = [t]
    while stack:
        x = stack.pop()
        i = x.get_id()
        if i in seen:
            continue
        seen.add(i)
        if z3.is_const(x) and x.decl().kind() == z3.Z3_OP_UNINTERPRETED:
            if x.sort().kind() == z3.Z3_REAL_SORT:
                acc.add(x.decl().name())
            continue
        stack.extend(x.children())
    return acc


class Translator:
    def __init__(self):
        self.cache = {}
        self.vars = {}

    def var(self, name):
        if name not in self.vars:
            self.vars[name] = z3.FP(name + "!fp", F64)
        return self.vars[name]

    def tr(self, t):
        i = t.get_id()
        if i in self.cache:
            return self.cache[i]
        r = self._tr(t)
        self.cache[i] = r
        return r

    def _is_real(self, t):
        return t.sort().kind() == z3.Z3_REAL_SORT

    def _tr(self, t):
        k = t.decl().kind() if z3.is_app(t) else None
        if self._is_real(t):
            if z3.is_rational_value(t):
                return z3.FPVal(float(fractions.Fraction(t.numerator_as_long(), t.denominator_as_long())), F64)
            if z3.is_const(t) and k == z3.Z3_OP_UNINTERPRETED:
                return self.var(t.decl().name())
            ch = t.children()
            if k == z3.Z3_OP_TO_REAL:
                c = ch[0]
                if z3.is_int_value(c):
                    return z3.FPVal(float(c.as_long()), F64)
                return z3.fpRealToFP(RNE, z3.ToReal(self.tr(c)), F64)
            if k == z3.Z3_OP_ADD:
                out = self.tr(ch[0])
                for c in ch[1:]:
                    out = z3.fpAdd(RNE, out, self.tr(c))
                return out
            if k == z3.Z3_OP_SUB:
                out = self.tr(ch[0])
                for c in ch[1:]:
                    out = z3.fpSub(RNE, out, self.tr(c))
                return out
            if k == z3.Z3_OP_MUL:
                out = self.tr(ch[0])
                for c in ch[1:]:
                    out = z3.fpMul(RNE, out, self.tr(c))
                return out
            if k == z3.Z3_OP_DIV:
                return z3.fpDiv(RNE, self.tr(ch[0]), self.tr(ch[1]))
            if k == z3.Z3_OP_UMINUS:
                return z3.fpNeg(self.tr(ch[0]))
            if k == z3.Z3_OP_ITE:
                return z3.If(self.tr(ch[0]), self.tr(ch[1]), self.tr(ch[2]))
            raise NoFP(f"real operator {t.decl().name()}")
        if not z3.is_app(t):
            raise NoFP("quantified term")
        ch = t.children()
        if ch and any(self._is_real(c) for c in ch):
            a = [self.tr(c) for c in ch]
            if k == z3.Z3_OP_LT:
                return z3.fpLT(a[0], a[1])
            if k == z3.Z3_OP_LE:
                return z3.fpLEQ(a[0], a[1])
            if k == z3.Z3_OP_GT:
                return z3.fpGT(a[0], a[1])
            if k == z3.Z3_OP_GE:
                return z3.fpGEQ(a[0], a[1])
            if k == z3.Z3_OP_EQ:
                return z3.fpEQ(a[0], a[1])
            if k == z3.Z3_OP_DISTINCT and len(a) == 2:
                return z3.Not(z3.fpEQ(a[0], a[1]))
            raise NoFP(f"operator {t.decl().name()} on reals")
        if not ch:
            return t
        a = [self.tr(c) for c in ch]
        if k == z3.Z3_OP_AND:
            return z3.And(*a)
        if k == z3.Z3_OP_OR:
            return z3.Or(*a)
        if k == z3.Z3_OP_ADD:
            return z3.Sum(a)
        if k == z3.Z3_OP_DISTINCT:
            return z3.Distinct(*a)
        return t.decl()(*a)


def fp_to_float(m, v):
    r = m.eval(v, model_completion=True)
    if z3.is_fp_value(r) if hasattr(z3, "is_fp_value") else True:
        if r.isNaN():
            return float("nan")
        if r.isInf():
            return float("-inf") if r.isNegative() else float("inf")
        q = z3.simplify(z3.fpToReal(r))
        return float(fractions.Fraction(q.numerator_as_long(), q.denominator_as_long()))
    raise NoFP("no value")


def differs(pre, pairs, timeout_s=60, magnitude=1e9):
    """pairs: [(t1, t2)] real-sorted terms; is there a finite Float64 input under `pre` for which some pair differs?
    -> (verdict, evaluator of input terms under the model, seconds)"""
    tr = Translator()
    t0 = time.time()
    try:
        fpre = [tr.tr(p) for p in pre]
        bad = []
        for a, b in pairs:
            fa, fb = tr.tr(a), tr.tr(b)
            bad.append(z3.And(z3.Not(z3.fpEQ(fa, fb)), z3.Not(z3.And(z3.fpIsNaN(fa), z3.fpIsNaN(fb)))))
    except NoFP as e:
        return f"unsupported: {e}", None, time.time() - t0
    s = z3.Solver()
    s.set("timeout", int(timeout_s * 1000))
    for p in fpre:
        s.add(p)
    lim = z3.FPVal(magnitude, F64)
    for v in tr.vars.values():
        s.add(z3.Not(z3.fpIsNaN(v)), z3.Not(z3.fpIsInf(v)), z3.fpLEQ(z3.fpAbs(v), lim))
    s.add(z3.Or(bad))
    r = str(s.check())
    if r != "sat":
        return r, None, time.time() - t0
    m = s.model()

    def value(t):
        """python value of an input term (a Real constant -> its Float64 model value)"""
        if t.sort().kind() == z3.Z3_REAL_SORT:
            if z3.is_const(t) and t.decl().kind() == z3.Z3_OP_UNINTERPRETED:
                return fp_to_float(m, tr.var(t.decl().name()))
            return fp_to_float(m, tr.tr(t))
        r = m.eval(t, model_completion=True)
        if z3.is_true(r):
            return True
        if z3.is_false(r):
            return False
        return r.as_long()
    return "sat", value, time.time() - t0


def fp_consts(t):
    """names (without the !fp suffix) of the Float64 constants of an already translated term"""
    acc, seen, stack = set(), set(), [t]
    while stack:
        x = stack.pop()
        if x.get_id() in seen:
            continue
        seen.add(x.get_id())
        if z3.is_const(x) and x.decl().kind() == z3.Z3_OP_UNINTERPRETED and x.decl().name().endswith("!fp"):
            acc.add(x.decl().name()[:-3])
            continue
        stack.extend(x.children())
    return acc


def differs_fp(tr, fpairs, timeout_s=30, magnitude=1e9):
    """like `differs` for pairs that are already Float64 terms of translator `tr` (no precondition left)"""
    t0 = time.time()
    s = z3.Solver()
    s.set("timeout", int(timeout_s * 1000))
    lim = z3.FPVal(magnitude, F64)
    low = z3.FPVal(0.01, F64)
    for v in tr.vars.values():
        # amounts: finite, zero or between one cent and `magnitude` (no subnormal witnesses)
        s.add(z3.Not(z3.fpIsNaN(v)), z3.Not(z3.fpIsInf(v)), z3.fpLEQ(z3.fpAbs(v), lim), z3.Or(z3.fpIsZero(v), z3.fpGEQ(z3.fpAbs(v), low)))
    s.add(z3.Or([z3.And(z3.Not(z3.fpEQ(a, b)), z3.Not(z3.And(z3.fpIsNaN(a), z3.fpIsNaN(b)))) for a, b in fpairs]))
    r = str(s.check())
    if r != "sat":
        return r, None, time.time() - t0
    m = s.model()
    return "sat", (lambda name: fp_to_float(m, tr.var(name))), time.time() - t0
