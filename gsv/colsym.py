"""colsym -- bounded symbolic columns (SymArray) and models of the third-party array operations.

A SymArray is a fixed-length vector of rulesym scalars with a numpy dtype tag.  The *real source*
of gettsim's whole-column code runs on SymArrays through rulesym; only third-party calls
(numpy, numpy_groupies) are modelled here.  Each model is conformance-tested against the real
library on concrete arrays (`conformance()`), every run.
"""
from __future__ import annotations

import ast

import numpy
import numpy_groupies as npg
import z3

from gsv import rulesym as R
from gsv.rulesym import Sym, Unsupported, is_sym, lift, merge, truth

VECTORIZE_STRICT = False   # model the otypes-from-first-row rule of numpy.vectorize


def kind_of(dtype):
    return numpy.dtype(dtype).kind     # 'b', 'i', 'f', 'M'


def dtype_of_elems(elems):
    ks = set()
    for e in elems:
        ty = e.ty if is_sym(e) else R.pytype(e)
        ks.add(ty)
    if float in ks:
        return numpy.dtype(float)
    if int in ks:
        return numpy.dtype(int)
    if bool in ks:
        return numpy.dtype(bool)
    return numpy.dtype(object)


ARRAY_TRUTH_IS_ERROR = [False]


class SymArray:
    _symarray = True
    __hash__ = None
    __array_priority__ = 1000

    def __init__(self, elems, dtype=None):
        self.e = list(elems)
        self.dtype = numpy.dtype(dtype) if dtype is not None else dtype_of_elems(self.e)

    # -- container protocol ----------------------------------------------------------
    def __len__(self):
        return len(self.e)

    def __iter__(self):
        return iter(self.e)

    @property
    def shape(self):
        return (len(self.e),)

    @property
    def ndim(self):
        return 1

    @property
    def size(self):
        return len(self.e)

    def _copy(self):
        return SymArray(list(self.e), self.dtype)

    def copy(self):
        return self._copy()

    def _merge(self, c, other):
        if len(other.e) != len(self.e):
            raise Unsupported("merge of arrays of different length")
        return SymArray([merge(c, a, b) for a, b in zip(self.e, other.e)],
                        numpy.promote_types(self.dtype, other.dtype))

    def __repr__(self):
        return f"SymArray<{self.dtype}>({self.e})"

    def __bool__(self):
        if ARRAY_TRUTH_IS_ERROR[0] and len(self.e) != 1:
            # numpy: "The truth value of an array with more than one element is ambiguous" -- a loud failure of the
            # path that reaches it (enabled by the checks that execute user code on arrays, i.e. C09)
            R.CTX.err(True, "ValueError(truth value of an array)")
            raise R.PathEnd()
        raise Unsupported("truth value of a symbolic array used natively")

    def tolist(self):
        return list(self.e)

    # -- element-wise operators --------------------------------------------------------
    def _ew(self, other, f, dtype=None):
        if isinstance(other, SymArray):
            if len(other.e) != len(self.e):
                if len(other.e) == 1:
                    o = other.e * len(self.e)
                elif len(self.e) == 1:
                    return other._ew(self, lambda a, b: f(b, a), dtype)
                else:
                    R.CTX.err(True, "ValueError(operands could not be broadcast)")
                    raise R.PathEnd()
            else:
                o = other.e
        elif isinstance(other, SymMat):
            return NotImplemented
        elif isinstance(other, (list, tuple, numpy.ndarray)) and not isinstance(other, str):
            o = list(other)
            if len(o) != len(self.e):
                raise Unsupported("broadcast with concrete sequence of other length")
        else:
            o = [other] * len(self.e)
        with _numpy_arith():
            out = [f(a, b) for a, b in zip(self.e, o)]
        return SymArray(out, dtype)

    def _bin(self, op, other, rev=False):
        # numpy: arithmetic between two boolean operands stays boolean -- "+" is logical or, "*" logical and,
        # "-" is a TypeError; only a non-boolean operand promotes to int / float
        def is_boolish(x):
            if isinstance(x, SymArray):
                return x.dtype is not None and numpy.dtype(x.dtype).kind == "b"
            if is_sym(x):
                return x.ty is bool and x.dyn is None
            return isinstance(x, (bool, numpy.bool_))
        if self.dtype is not None and numpy.dtype(self.dtype).kind == "b" and is_boolish(other) and isinstance(op, (ast.Add, ast.Mult, ast.Sub)):
            if isinstance(op, ast.Sub):
                R.CTX.err(True, "TypeError(numpy boolean subtract)")
                raise R.PathEnd()
            f = z3.Or if isinstance(op, ast.Add) else z3.And
            return self._ew(other, lambda a, b: Sym(f(truth(a), truth(b)), bool) if (is_sym(a) or is_sym(b)) else
                            ((bool(a) or bool(b)) if isinstance(op, ast.Add) else (bool(a) and bool(b))), bool)
        if rev:
            return self._ew(other, lambda a, b: R.binop(op, b, a))
        return self._ew(other, lambda a, b: R.binop(op, a, b))

    def __add__(self, o): return self._bin(ast.Add(), o)
    def __radd__(self, o): return self._bin(ast.Add(), o, True)
    def __sub__(self, o): return self._bin(ast.Sub(), o)
    def __rsub__(self, o): return self._bin(ast.Sub(), o, True)
    def __mul__(self, o): return self._bin(ast.Mult(), o)
    def __rmul__(self, o): return self._bin(ast.Mult(), o, True)
    def __truediv__(self, o): return self._bin(ast.Div(), o)
    def __rtruediv__(self, o): return self._bin(ast.Div(), o, True)
    def __floordiv__(self, o): return self._bin(ast.FloorDiv(), o)
    def __rfloordiv__(self, o): return self._bin(ast.FloorDiv(), o, True)
    def __mod__(self, o): return self._bin(ast.Mod(), o)
    def __pow__(self, o): return self._bin(ast.Pow(), o)
    def __neg__(self): return SymArray([R.neg(a) if is_sym(a) else -a for a in self.e])
    def __pos__(self): return self

    def _cmp(self, op, other):
        if getattr(self, "_col", False) and isinstance(other, SymArray):
            rows = [[R.compare(op, a, b) for b in other.e] for a in self.e]
            return SymMat(rows)
        return self._ew(other, lambda a, b: R.compare(op, a, b), bool)

    def __lt__(self, o): return self._cmp(ast.Lt(), o)
    def __le__(self, o): return self._cmp(ast.LtE(), o)
    def __gt__(self, o): return self._cmp(ast.Gt(), o)
    def __ge__(self, o): return self._cmp(ast.GtE(), o)
    def __eq__(self, o): return self._cmp(ast.Eq(), o)
    def __ne__(self, o): return self._cmp(ast.NotEq(), o)

    def __and__(self, o):
        return self._ew(o, lambda a, b: _land(a, b), bool if self.dtype == bool else None)

    def __rand__(self, o): return self.__and__(o)

    def __or__(self, o):
        return self._ew(o, lambda a, b: _lor(a, b), bool if self.dtype == bool else None)

    def __ror__(self, o): return self.__or__(o)

    def __invert__(self):
        if self.dtype != bool:
            raise Unsupported("~ on non-bool array")
        return SymArray([_lnot(a) for a in self.e], bool)

    def round(self, n=0):
        return SymArray([R.np_round(a, n) for a in self.e])

    def any(self):
        return R.call_value(any, [self.e], {})

    def all(self):
        return R.call_value(all, [self.e], {})

    def sum(self, axis=None):
        return np_sum(self)

    def min(self, axis=None):
        return np_min(self)

    def max(self, axis=None):
        return np_max(self)

    def mean(self, axis=None):
        with _numpy_arith():
            return R.binop(ast.Div(), np_sum(self), len(self.e))

    def argmax(self, axis=None):
        return _argbest(self.e, ast.Gt())

    def argmin(self, axis=None):
        return _argbest(self.e, ast.Lt())

    def __getattr__(self, name):
        # numpy API that is not modelled: not encodable (never a crash of the harness)
        if name.startswith("_"):
            raise AttributeError(name)
        raise Unsupported(f"numpy array attribute .{name} is not modelled")

    # -- indexing ------------------------------------------------------------------------
    def __getitem__(self, idx):
        if isinstance(idx, tuple) and len(idx) == 2 and idx[0] == slice(None) and idx[1] is None:
            r = SymArray(self.e, self.dtype)
            r._col = True
            return r
        if isinstance(idx, SymArray):
            if idx.dtype == bool:
                return Masked(self, idx)
            return SymArray([select(self.e, i) for i in idx.e], self.dtype)
        if isinstance(idx, slice):
            return SymArray(self.e[idx], self.dtype)
        if is_sym(idx):
            return select(self.e, idx)
        if isinstance(idx, (list, numpy.ndarray)):
            return SymArray([self.e[int(i)] for i in idx], self.dtype)
        try:
            return self.e[idx]
        except (IndexError, TypeError):
            R.CTX.err(True, "IndexError")
            raise R.PathEnd()

    def __setitem__(self, idx, v):
        if isinstance(idx, SymArray) and idx.dtype != bool:
            # a[index array] = values: element by element, later positions win (numpy's behaviour for repeated indices)
            vals = list(v.e) if isinstance(v, SymArray) else (list(v) if isinstance(v, (list, tuple, numpy.ndarray)) else [v] * len(idx.e))
            if len(vals) != len(idx.e):
                raise Unsupported("fancy assignment with broadcasting")
            for i, x in zip(idx.e, vals):
                self[i] = x
            return
        if is_sym(idx):
            ti, _ = R.num(idx)
            n = len(self.e)
            R.CTX.err(z3.Or(ti < -n, ti >= n), "IndexError")
            v = self._cast_elem(v)
            self.e = [merge(z3.Or(ti == k, ti == k - n), v, old) for k, old in enumerate(self.e)]
        else:
            self.e[idx] = self._cast_elem(v)

    def _cast_elem(self, v):
        k = self.dtype.kind
        if k == "f":
            return R.to_float(v)
        if k == "i":
            return R.to_int(v)
        if k == "b":
            return R.to_bool(v)
        return v

    def take(self, idx, axis=None, out=None, mode="raise"):
        return m_take(self, idx, mode=mode)

    def argsort(self, axis=-1, kind=None, **kw):
        return m_argsort(self)

    def searchsorted(self, v, side="left", sorter=None):
        return m_searchsorted_arr(self, v, side=side, sorter=sorter)

    def repeat(self, repeats, axis=None):
        if is_sym(repeats) or not isinstance(repeats, (int, numpy.integer)):
            raise Unsupported("repeat with non-constant count")
        return SymArray([x for x in self.e for _ in range(int(repeats))], self.dtype)

    def cumsum(self, axis=None):
        return m_cumsum(self)

    def clip(self, min=None, max=None, **kw):   # noqa: A002 -- numpy's keyword names
        if kw:
            raise Unsupported(f"ndarray.clip({sorted(kw)})")
        return m_clip(self, min, max)

    def astype(self, t, copy=True, **kw):
        if isinstance(t, numpy.dtype):
            t = {"i": int, "f": float, "b": bool}.get(t.kind, t) if t.itemsize == 8 or t.kind == "b" else t
        if t in (int, "int", numpy.int64, "int64"):
            dt, f = numpy.dtype(int), R.to_int
        elif t in (float, "float", numpy.float64, "float64"):
            dt, f = numpy.dtype(float), R.to_float
        elif t in (bool, "bool", numpy.bool_):
            dt, f = numpy.dtype(bool), R.to_bool
        else:
            dt = numpy.dtype(t)
            if dt.kind == "M" or self.dtype.kind == "M":
                # datetime detour used by grouped_max/min: days as ints, order preserving
                return SymArray(self.e, dt)
            raise Unsupported(f"astype {t}")
        return SymArray([f(x) for x in self.e], dt)

    def _symlen(self):
        return len(self.e)


def _argbest(elems, op):
    best, idx = elems[0], 0
    for k in range(1, len(elems)):
        c = R.compare(op, elems[k], best)
        ct = truth(c) if is_sym(c) else c
        best = merge(ct, elems[k], best)
        idx = merge(ct, k, idx)
    return idx


class SymMat:
    """2-d matrix (rows of scalars), e.g. from a broadcasted comparison"""
    _symarray = True
    __hash__ = None

    def __init__(self, rows):
        self.rows = rows

    @property
    def shape(self):
        return (len(self.rows), len(self.rows[0]) if self.rows else 0)

    @property
    def T(self):
        return SymMat([list(c) for c in zip(*self.rows)])

    def __getitem__(self, idx):
        if isinstance(idx, tuple) and len(idx) == 2 and all(isinstance(i, (slice, int)) for i in idx):
            r, c = idx
            rows = self.rows[r] if isinstance(r, slice) else [self.rows[r]]
            out = [row[c] for row in rows]
            if isinstance(r, int):
                return SymArray(out[0]) if isinstance(c, slice) else out[0]
            if isinstance(c, int):
                return SymArray(out)
            return SymMat([list(x) for x in out])
        if isinstance(idx, (int, slice)):
            return SymArray(self.rows[idx]) if isinstance(idx, int) else SymMat(self.rows[idx])
        raise Unsupported("matrix indexing")

    def _reduce(self, f, axis):
        if axis == 1:
            return SymArray([f(SymArray(r)) for r in self.rows])
        if axis == 0:
            return SymArray([f(SymArray(list(c))) for c in zip(*self.rows)])
        return f(SymArray([x for r in self.rows for x in r]))

    def any(self, axis=None):
        return self._reduce(lambda a: a.any(), axis)

    def all(self, axis=None):
        return self._reduce(lambda a: a.all(), axis)

    def sum(self, axis=None):
        return self._reduce(lambda a: a.sum(), axis)

    def argmax(self, axis=None):
        return m_argmax(self, axis)

    def __getattr__(self, name):
        if name.startswith("_"):
            raise AttributeError(name)
        raise Unsupported(f"numpy matrix attribute .{name} is not modelled")

    def _copy(self):
        return SymMat([list(r) for r in self.rows])

    def _symlen(self):
        return len(self.rows)


class Masked:
    """a[mask]: selection with symbolic length (only len() and emptiness are observable)"""
    _symarray = True
    __hash__ = None

    def __init__(self, arr, mask):
        self.arr, self.mask = arr, mask

    def _symlen(self):
        return Sym(z3.Sum([z3.If(truth(m), 1, 0) for m in self.mask.e]) if self.mask.e else z3.IntVal(0), int)

    def _copy(self):
        return self

    def _compact(self):
        """the selected elements as an array: one fork per mask bit (2^n paths, n = bounded column length)"""
        out = []
        for x, m in zip(self.arr.e, self.mask.e):
            if not is_sym(m):
                keep = bool(m)
            else:
                t = truth(m)
                keep = R.decide(2, lambda k, t=t: t if k == 0 else z3.Not(t)) == 0
            if keep:
                out.append(x)
        return SymArray(out, self.arr.dtype)


class _numpy_arith:
    """numpy array arithmetic does not raise on division by zero (inf/nan + warning)"""

    def __enter__(self):
        self.old = R.CTX.errors
        self.keep = list(R.CTX.errors)
        return self

    def __exit__(self, *a):
        new = [e for e in R.CTX.errors[len(self.keep):] if e[1] != "ZeroDivisionError"]
        R.CTX.errors[:] = self.keep + new


def _land(a, b):
    if not is_sym(a) and not is_sym(b):
        return bool(a) and bool(b)
    return Sym(z3.And(truth(a), truth(b)), bool)


def _lor(a, b):
    if not is_sym(a) and not is_sym(b):
        return bool(a) or bool(b)
    return Sym(z3.Or(truth(a), truth(b)), bool)


def _lnot(a):
    if not is_sym(a):
        return not a
    return Sym(z3.Not(truth(a)), bool)


def select(elems, idx):
    """elems[idx] with python/numpy negative-index semantics"""
    if not is_sym(idx):
        try:
            return elems[int(idx)]
        except IndexError:
            R.CTX.err(True, "IndexError")
            raise R.PathEnd()
    ti, _ = R.num(idx)
    n = len(elems)
    if n == 0:
        R.CTX.err(True, "IndexError")
        raise R.PathEnd()
    out = elems[-1]
    for k in range(n - 2, -1, -1):
        out = merge(z3.Or(ti == k, ti == k - n), elems[k], out)
    R.CTX.err(z3.Or(ti < -n, ti >= n), "IndexError")
    return out


def as_list(x, n=None):
    if isinstance(x, SymArray) or hasattr(x, "e"):
        return list(x.e)
    if isinstance(x, (list, tuple, numpy.ndarray)):
        return list(x)
    return [x] * (n or 1)


def arrays_len(*xs):
    ns = {len(x.e) for x in xs if isinstance(x, SymArray)}
    if len(ns) > 1:
        ns.discard(1)
    if len(ns) != 1:
        raise Unsupported(f"cannot determine common array length of {[(type(x).__name__, len(getattr(x, "e", []))) for x in xs]}")
    return ns.pop()


def elementwise(f, *args):
    n = arrays_len(*args)
    cols = [as_list(a, n) if not (isinstance(a, SymArray) and len(a.e) == 1 and n != 1) else a.e * n for a in args]
    with _numpy_arith():
        return SymArray([f(*vals) for vals in zip(*cols)])


def where(c, a, b):
    return elementwise(lambda cc, x, y: R.np_where(cc, x, y), c, a, b)


def _flatten(x):
    """all scalar elements of (nested lists of) arrays -- numpy reductions with axis=None"""
    if isinstance(x, SymArray):
        return list(x.e)
    if isinstance(x, (list, tuple)):
        out = []
        lens = set()
        for y in x:
            f = _flatten(y)
            lens.add(len(f) if isinstance(y, (SymArray, list, tuple)) else 0)
            out += f
        # numpy would build a 2-d array: rows must have equal length (ragged -> error); scalars broadcast not
        if len(lens) > 1:
            R.CTX.err(True, "ValueError(inhomogeneous shape)")
            raise R.PathEnd()
        return out
    if isinstance(x, numpy.ndarray):
        return list(x.ravel())
    return [x]


def np_sum(x, axis=None):
    if axis is not None:
        raise Unsupported("numpy.sum with axis")
    out = 0
    for v in _flatten(x):
        out = R.binop(ast.Add(), out, v)
    return out


def np_any(x, axis=None):
    vs = _flatten(x)
    return R.call_value(any, [vs], {})


def np_all(x, axis=None):
    vs = _flatten(x)
    return R.call_value(all, [vs], {})


def np_max(x, axis=None):
    vs = _flatten(x)
    return R.call_value(max, [vs], {})


def np_min(x, axis=None):
    vs = _flatten(x)
    return R.call_value(min, [vs], {})


def vectorize_apply(vf, args, kwargs):
    n = arrays_len(*args, *kwargs.values())
    outs = []
    for i in range(n):
        a = [x.e[i] if isinstance(x, SymArray) else x for x in args]
        kw = {k: (x.e[i] if isinstance(x, SymArray) else x) for k, x in kwargs.items()}
        outs.append(R.call_value(vf.pyfunc, a, kw))
    if vf.otypes is not None:
        return SymArray(outs).astype(otype_to_py(vf.otypes[0]))
    if VECTORIZE_STRICT:
        return strict_first_row_dtype(outs)
    return SymArray(outs)


def otype_to_py(o):
    k = numpy.dtype(o).kind
    return {"f": float, "i": int, "u": int, "b": bool}[k]


def strict_first_row_dtype(outs):
    """numpy.vectorize without otypes: the dtype of the first result, all results cast to it.
    The path is forked on the python type of the first result, so that `.dtype` of the returned
    array is concrete on each path (code after the call may inspect it)."""
    first = outs[0]
    g = list(R.tyguards(first).items())
    if len(g) == 1:
        T = g[0][0]
    else:
        k = R.decide(len(g), lambda k: R.zbool(g[k][1]))
        T = g[k][0]
    return SymArray([R.cast(v, T) for v in outs], T)


# --------------------------------------------------------------------------------------
# numpy / numpy_groupies models (registered as rulesym intrinsics)
# --------------------------------------------------------------------------------------
def _has_arr(args, kw):
    return any(getattr(a, "_symarray", False) or (isinstance(a, (list, tuple)) and any(getattr(x, "_symarray", False) for x in a))
               for a in list(args) + list(kw.values()))


def _reg(npf, model):
    def h(args, kw):
        if not _has_arr(args, kw):
            if R.is_symbolic(list(args)) or R.is_symbolic(kw):
                return model(*args, **kw)
            return R._native(npf, args, kw)
        return model(*args, **kw)
    R.INTRINSICS[npf] = h


def m_zeros_like(a, dtype=None):
    dt = numpy.dtype(dtype or a.dtype)
    z = {"f": 0.0, "b": False}.get(dt.kind, 0)
    return SymArray([z] * len(a.e), dt)


def m_ones(n, dtype=float):
    if is_sym(n):
        raise Unsupported("ones(symbolic)")
    return SymArray([1.0] * int(n), float)


def m_asarray(x, dtype=None):
    if isinstance(x, SymArray):
        return x if dtype is None else x.astype(dtype)
    return SymArray(list(x), dtype)


def m_isin(a, b, assume_unique=False, invert=False, **kw):
    if kw:
        raise Unsupported(f"isin({sorted(kw)})")
    scalar = not getattr(a, "_symarray", False) and not isinstance(a, (list, tuple, numpy.ndarray))
    elems = [a] if scalar else (a.e if isinstance(a, SymArray) else list(a))
    if isinstance(b, (set, frozenset, dict)) or type(b).__name__ == "SymSet":
        # numpy.asarray(a set) is a 0-d object array: no element of `a` ever equals it (a known numpy pitfall)
        res = [bool(invert)] * len(elems)
    else:
        bs = list(b.e) if isinstance(b, SymArray) else (list(b) if isinstance(b, (list, tuple, numpy.ndarray)) else [b])
        res = []
        for x in elems:
            r = R.compare(ast.In(), x, bs) if (is_sym(x) or any(is_sym(y) for y in bs)) else (x in bs)
            if invert:
                r = Sym(z3.Not(truth(r)), bool) if is_sym(r) else (not r)
            res.append(r)
    return res[0] if scalar else SymArray(res, bool)


class UniqueRes:
    """numpy.unique of a 1-d symbolic array: a sorted array whose LENGTH is symbolic.  Supported: len, iteration
    is not; indexing by (symbolic) position; the companion arrays (inverse, counts, first index) are ordinary
    SymArrays."""
    _symarray = True
    __hash__ = None

    def __init__(self, a):
        self.a = a
        es = a.e
        n = len(es)
        self.first = [z3.And([z3.Not(truth(R.compare(ast.Eq(), es[i], es[j]))) for j in range(i)]) if i else z3.BoolVal(True) for i in range(n)]
        # rank of the value of row i among the distinct values
        self.rank = []
        for i in range(n):
            t = z3.IntVal(0)
            for j in range(n):
                if j != i:
                    t = t + z3.If(z3.And(self.first[j], truth(R.compare(ast.Lt(), es[j], es[i]))), 1, 0)
            self.rank.append(t)

    def _symlen(self):
        tot = z3.IntVal(0)
        for f in self.first:
            tot = tot + z3.If(f, 1, 0)
        return Sym(tot, int)

    def _copy(self):
        return self

    dtype = property(lambda self: self.a.dtype)

    def inverse(self):
        return SymArray([Sym(r, int) for r in self.rank], int)

    def counts_at(self, k):
        """number of rows whose value has rank k"""
        tk, _ = R.num(k) if is_sym(k) else (z3.IntVal(int(k)), int)
        return Sym(z3.Sum([z3.If(r == tk, 1, 0) for r in self.rank]), int)

    def first_index_at(self, k):
        tk, _ = R.num(k) if is_sym(k) else (z3.IntVal(int(k)), int)
        idx = z3.IntVal(-1)
        for i in reversed(range(len(self.rank))):
            idx = z3.If(z3.And(self.first[i], self.rank[i] == tk), i, idx)
        return Sym(idx, int)

    def value_at(self, k):
        tk, _ = R.num(k) if is_sym(k) else (z3.IntVal(int(k)), int)
        n = self._symlen().t
        R.CTX.err(z3.Or(tk >= n, tk < -n), "IndexError")
        tk = z3.If(tk < 0, tk + n, tk)
        out = self.a.e[-1]
        for i in reversed(range(len(self.rank) - 1)):
            out = merge(self.rank[i] == tk, self.a.e[i], out)
        return out

    def __getitem__(self, idx):
        if isinstance(idx, SymArray):
            return SymArray([self.value_at(k) for k in idx.e], self.a.dtype)
        if is_sym(idx) or isinstance(idx, (int, numpy.integer)):
            return self.value_at(idx)
        raise Unsupported("indexing of numpy.unique result")


class _UniqueCompanion:
    """counts / first indices of numpy.unique: length symbolic, indexable by position"""
    _symarray = True
    __hash__ = None

    def __init__(self, u, what):
        self.u, self.what = u, what

    def _symlen(self):
        return self.u._symlen()

    def _copy(self):
        return self

    def _at(self, k):
        return self.u.counts_at(k) if self.what == "counts" else self.u.first_index_at(k)

    def __getitem__(self, idx):
        if isinstance(idx, SymArray):
            return SymArray([self._at(k) for k in idx.e], int)
        if is_sym(idx) or isinstance(idx, (int, numpy.integer)):
            return self._at(idx)
        raise Unsupported("indexing of numpy.unique companion")


def m_unique(a, return_index=False, return_inverse=False, return_counts=False, axis=None, **kw):
    if kw or axis is not None:
        raise Unsupported(f"unique({sorted(kw)}, axis={axis})")
    if isinstance(a, SymSeries):
        a = a.a
    u = UniqueRes(a)
    out = [u]
    if return_index:
        out.append(_UniqueCompanion(u, "index"))
    if return_inverse:
        out.append(u.inverse())
    if return_counts:
        out.append(_UniqueCompanion(u, "counts"))
    return u if len(out) == 1 else tuple(out)


class BinCount:
    """numpy.bincount(x, weights): length symbolic (max+1, at least minlength); indexable by position"""
    _symarray = True
    __hash__ = None

    def __init__(self, x, weights, minlength):
        self.x, self.w, self.minlength = x, weights, minlength
        for v in x.e:
            if is_sym(v):
                R.CTX.err(R.num(v)[0] < 0, "ValueError")
            elif v < 0:
                R.CTX.err(True, "ValueError")
        self.dtype = numpy.dtype(int) if weights is None else numpy.dtype(float)

    def _symlen(self):
        m = z3.IntVal(int(self.minlength))
        for v in self.x.e:
            tv = R.num(v)[0] if is_sym(v) else z3.IntVal(int(v))
            m = z3.If(tv + 1 > m, tv + 1, m)
        return Sym(m, int)

    def _copy(self):
        return self

    def _at(self, k):
        tk = R.num(k)[0] if is_sym(k) else z3.IntVal(int(k))
        n = self._symlen().t
        R.CTX.err(z3.Or(tk >= n, tk < -n), "IndexError")
        tk = z3.If(tk < 0, tk + n, tk)
        tot = 0.0 if self.w is not None else 0
        for i, v in enumerate(self.x.e):
            hit = truth(R.compare(ast.Eq(), v, Sym(tk, int)))
            add = self.w.e[i] if self.w is not None else 1
            if self.w is not None:
                add = R.to_float(add) if is_sym(add) else float(add)
            tot = R.binop(ast.Add(), tot, merge(hit, add, 0.0 if self.w is not None else 0))
        return tot

    def __getitem__(self, idx):
        if isinstance(idx, SymArray):
            return SymArray([self._at(k) for k in idx.e], self.dtype)
        if is_sym(idx) or isinstance(idx, (int, numpy.integer)):
            return self._at(idx)
        raise Unsupported("indexing of numpy.bincount result")


def m_bincount(x, weights=None, minlength=0):
    if isinstance(x, UniqueRes) or not isinstance(x, SymArray):
        raise Unsupported("bincount argument")
    if weights is not None and not isinstance(weights, SymArray):
        weights = SymArray(list(weights))
    return BinCount(x, weights, minlength)


def m_diff(a, n=1, axis=-1, **kw):
    if isinstance(a, Masked):
        a = a._compact()
    pre, app = kw.pop("prepend", None), kw.pop("append", None)
    if n != 1 or kw:
        raise Unsupported("diff(n != 1)")
    if pre is not None or app is not None:
        one = lambda v: v if (getattr(v, "_symarray", False) or isinstance(v, (list, tuple, numpy.ndarray))) else [v]   # noqa: E731
        a = m_concatenate(([one(pre)] if pre is not None else []) + [a] + ([one(app)] if app is not None else []))
    return a[1:] - a[:-1]


def m_concatenate(arrays, axis=0, **kw):
    out, dts = [], []
    for a in arrays:
        if isinstance(a, Masked):
            a = a._compact()
        if isinstance(a, SymArray):
            out += list(a.e)
            dts.append(a.dtype)
        elif isinstance(a, (list, tuple, numpy.ndarray)):
            vals = [x.item() if isinstance(x, numpy.generic) else x for x in a]
            out += vals
            dts.append(numpy.asarray(a).dtype if not any(is_sym(v) for v in vals) else None)
        else:
            raise Unsupported("concatenate operand")
    dts = [d for d in dts if d is not None]
    return SymArray(out, numpy.result_type(*dts) if dts and not any(is_sym(v) for v in out if False) else None)


def m_append(arr, values, axis=None):
    vals = values if isinstance(values, (SymArray, list, tuple, numpy.ndarray)) else [values]
    arr = arr if isinstance(arr, (SymArray, list, tuple, numpy.ndarray)) else [arr]
    return m_concatenate([arr, vals])


def m_lexsort(keys, axis=-1):
    """indices that sort by the LAST key first (numpy.lexsort), stable"""
    keys = [k if isinstance(k, SymArray) else SymArray(list(k)) for k in keys]
    n = len(keys[0].e)

    def less(j, i):
        # row j strictly before row i in (last key, ..., first key, position) order
        res = z3.BoolVal(j < i)
        for k in keys:          # first key is least significant: fold from least to most significant
            lt = truth(R.compare(ast.Lt(), k.e[j], k.e[i]))
            eq = truth(R.compare(ast.Eq(), k.e[j], k.e[i]))
            res = z3.Or(lt, z3.And(eq, res))
        return res
    ranks = [z3.Sum([z3.If(less(j, i), 1, 0) for j in range(n) if j != i]) if n > 1 else z3.IntVal(0) for i in range(n)]
    out = []
    for k in range(n):
        idx = z3.IntVal(n - 1)
        for i in range(n - 2, -1, -1):
            idx = z3.If(ranks[i] == k, i, idx)
        out.append(Sym(idx, int))
    return SymArray(out, int)


def _m_filled(value):
    def model(shape, dtype=None, **kw):
        if isinstance(shape, tuple):
            if len(shape) != 1:
                raise Unsupported("n-d array constructor")
            shape = shape[0]
        if is_sym(shape):
            raise Unsupported("array constructor with symbolic length")
        dt = numpy.dtype(dtype if dtype is not None else float)
        v = {"f": float(value), "b": bool(value)}.get(dt.kind, int(value))
        return SymArray([v] * int(shape), dt)
    return model


def m_full(shape, fill_value, dtype=None, **kw):
    if isinstance(shape, tuple):
        if len(shape) != 1:
            raise Unsupported("n-d array constructor")
        shape = shape[0]
    if is_sym(shape):
        raise Unsupported("array constructor with symbolic length")
    return SymArray([fill_value] * int(shape), numpy.dtype(dtype) if dtype is not None else None)


def m_full_like(a, fill_value, dtype=None, **kw):
    return SymArray([fill_value] * len(a.e), numpy.dtype(dtype) if dtype is not None else a.dtype)


def m_ones_like(a, dtype=None):
    dt = numpy.dtype(dtype or a.dtype)
    o = {"f": 1.0, "b": True}.get(dt.kind, 1)
    return SymArray([o] * len(a.e), dt)


def _m_ufunc_at(op):
    """ufunc.at(out, indices, values): unbuffered in-place scatter; `indices` / `values` may be boolean selections
    a[mask] (every row takes part under its mask bit)"""
    def model(out, indices, values=None):
        if not isinstance(out, SymArray):
            raise Unsupported("ufunc.at on a non-symbolic array")
        if isinstance(indices, Masked):
            idx, guards = list(indices.arr.e), [truth(m) for m in indices.mask.e]
            if isinstance(values, Masked):
                if not _same_mask(values.mask, indices.mask):
                    raise Unsupported("ufunc.at with differently masked indices and values")
                vals = list(values.arr.e)
            elif isinstance(values, (SymArray, list, tuple, numpy.ndarray)):
                raise Unsupported("ufunc.at with masked indices and an unmasked value array")
            else:
                vals = [values] * len(idx)
        else:
            if isinstance(values, Masked):
                raise Unsupported("ufunc.at with masked values only")
            idx = indices.e if isinstance(indices, SymArray) else list(indices)
            guards = [z3.BoolVal(True)] * len(idx)
            vals = values.e if isinstance(values, SymArray) else ([values] * len(idx) if not isinstance(values, (list, tuple, numpy.ndarray)) else list(values))
        n = len(out.e)
        for k, v, g in zip(idx, vals, guards):
            tk = R.num(k)[0] if is_sym(k) else z3.IntVal(int(k))
            R.CTX.err(z3.And(g, z3.Or(tk >= n, tk < -n)), "IndexError")
            new = []
            for pos, old in enumerate(out.e):
                if op == "add":
                    upd = R.binop(ast.Add(), old, v)
                else:
                    upd = R.py_max([old, v], op == "max")
                new.append(merge(z3.And(g, z3.Or(tk == pos, tk == pos - n)), out._cast_elem(upd), old))
            out.e = new
        return None
    return model


def _same_mask(a, b):
    if a is b:
        return True
    if len(a.e) != len(b.e):
        return False
    return all((x is y) or (is_sym(x) and is_sym(y) and x.t.eq(y.t)) or (not is_sym(x) and not is_sym(y) and bool(x) == bool(y)) for x, y in zip(a.e, b.e))


def m_pad(a, pad_width, mode="constant", constant_values=0):
    if isinstance(a, SymMat):
        if tuple(map(tuple, pad_width)) != ((0, 0), (0, 1)):
            raise Unsupported("pad widths")
        return SymMat([r + [constant_values] for r in a.rows])
    if isinstance(a, SymArray):
        if tuple(pad_width) != (0, 1):
            raise Unsupported("pad widths")
        out = SymArray(a.e + [a._cast_elem(constant_values)], a.dtype)
        return out
    raise Unsupported("pad")


def m_argmax(m, axis=None):
    if isinstance(m, SymArray):
        return m.argmax()
    if not isinstance(m, SymMat) or axis != 1:
        raise Unsupported("argmax")
    return SymArray([_argbest([R.cast_up_bool(x) if is_sym(x) else int(x) for x in r], ast.Gt()) for r in m.rows], int)


class AggTable:
    """npg.aggregate(group_idx, a, func, fill_value) result: a table indexed by group id.
    Contract modelled: out[g] = func over {a_j : group_idx_j == g}, fill_value for empty groups,
    size = max(group_idx)+1, negative group ids are an error."""
    _symarray = True
    __hash__ = None

    overrides = ()

    def __init__(self, gid, a, func, fill):
        self.gid, self.a, self.func, self.fill = gid, a, func, fill
        self.overrides = []
        for g in gid.e:
            if is_sym(g):
                R.CTX.err(R.num(g)[0] < 0, "ValueError(negative group_idx)")
            elif g < 0:
                R.CTX.err(True, "ValueError(negative group_idx)")

    def _copy(self):
        return self

    def astype(self, t):
        return self

    @property
    def dtype(self):
        if self.func in ("any", "all"):
            return numpy.dtype(bool)
        return self.a.dtype if isinstance(self.a, SymArray) else numpy.asarray(self.a).dtype

    def __setitem__(self, key, value):
        # table[mask_table] = value  (both indexed by group id): recorded, applied at lookup
        if isinstance(key, AggTable) and key.func in ("any", "all"):
            self.overrides = list(self.overrides) + [(key, value)]
            return
        raise Unsupported("assignment into an aggregate table")

    def __getitem__(self, idx):
        base = self._lookup(idx)
        for mask, value in self.overrides:
            m = mask._lookup(idx)
            base = SymArray([merge(truth(mm), value, b) for mm, b in zip(m.e, base.e)], base.dtype if base.dtype is not None else None)
        return base

    def _lookup(self, idx):
        if isinstance(idx, numpy.ndarray):
            idx = SymArray([int(x) for x in idx], int)
        if not isinstance(idx, SymArray):
            idx = SymArray([idx])
        vals = list(self.a.e) if isinstance(self.a, SymArray) else list(self.a)
        gids = self.gid.e
        out = []
        for i in idx.e:
            members = [truth(R.compare(ast.Eq(), g, i)) for g in gids]
            # index beyond the table -> IndexError
            R.CTX.err(z3.Not(z3.Or([truth(R.compare(ast.LtE(), i, g)) for g in gids])), "IndexError")
            out.append(self._agg(members, vals))
        dt = None
        if self.func in ("any", "all"):
            dt = bool
        return SymArray(out, dt)

    def _agg(self, members, vals):
        f = self.func
        if f == "sum":
            out = 0
            for m, v in zip(members, vals):
                out = R.binop(ast.Add(), out, merge(m, v, R.cast(0, float) if (is_sym(v) and v.ty is float) or isinstance(v, float) else 0))
            return out
        if f == "mean":
            tot, cnt = 0.0, 0
            for m, v in zip(members, vals):
                tot = R.binop(ast.Add(), tot, merge(m, R.to_float(v), 0.0))
                cnt = R.binop(ast.Add(), cnt, merge(m, 1, 0))
            with _numpy_arith():
                return R.binop(ast.Div(), tot, cnt)
        if f in ("max", "min"):
            res = None
            have = False
            for m, v in zip(members, vals):
                if res is None:
                    res, have = v, m
                else:
                    better = truth(R.compare(ast.Gt() if f == "max" else ast.Lt(), v, res))
                    take = z3.And(m, z3.Or(z3.Not(R.zbool(have)), better))
                    res = merge(take, v, res)
                    have = z3.Or(R.zbool(have), m)
            return res
        if f == "any":
            return Sym(R.zbool(R.zor(*[R.zand(m, truth(v)) for m, v in zip(members, vals)])), bool)
        if f == "all":
            return Sym(R.zbool(R.zand(*[z3.Or(z3.Not(m), truth(v)) for m, v in zip(members, vals)])), bool)
        raise Unsupported(f"aggregate func {f}")


def m_aggregate(group_idx, a, func="sum", fill_value=0, **kw):
    if kw:
        raise Unsupported(f"aggregate kwargs {list(kw)}")
    if not isinstance(a, SymArray):
        a = SymArray([x.item() if hasattr(x, "item") else x for x in a])
    if not isinstance(group_idx, SymArray):
        group_idx = SymArray([int(x) for x in group_idx], int)
    return AggTable(group_idx, a, func, fill_value)


def m_array_equal(a, b):
    la, lb = as_list(a), as_list(b)
    if len(la) != len(lb):
        return False
    return R.call_value(all, [[R.compare(ast.Eq(), x, y) for x, y in zip(la, lb)]], {})


def m_argsort(a, axis=-1, kind=None, **kw):
    """stable argsort of a 1-d symbolic array: sorter[k] = the index whose rank is k"""
    es = a.e
    n = len(es)
    ranks = []
    for i in range(n):
        terms = []
        for j in range(n):
            if j == i:
                continue
            lt = truth(R.compare(ast.Lt(), es[j], es[i]))
            eq = truth(R.compare(ast.Eq(), es[j], es[i]))
            terms.append(z3.If(z3.Or(lt, z3.And(eq, z3.BoolVal(j < i))), 1, 0))
        ranks.append(z3.Sum(terms) if terms else z3.IntVal(0))
    out = []
    for k in range(n):
        idx = z3.IntVal(n - 1)
        for i in range(n - 2, -1, -1):
            idx = z3.If(ranks[i] == k, i, idx)
        out.append(Sym(idx, int))
    return SymArray(out, int)


def m_sort(a, axis=-1, kind=None, **kw):
    return a[m_argsort(a)]


_SS = [0]


def m_searchsorted_arr(arr, v, side="left", sorter=None):
    """numpy.searchsorted on a symbolic sorted array: number of elements before the insertion point"""
    if sorter is not None:
        arr = arr[sorter]
    es = as_list(arr)
    # numpy binary-searches: on a haystack that is not ascending the result is whatever the search happens to
    # hit (it even depends on the previous key) -- modelled as an unconstrained index in 0..n
    asc = R.zand(*[R.zbool(truth(R.compare(ast.LtE(), a, b))) for a, b in zip(es, es[1:])]) if len(es) > 1 else True

    def one(x):
        op = ast.Lt() if side == "left" else ast.LtE()
        tot = 0
        for e in es:
            c = R.compare(op, e, x)
            tot = R.binop(ast.Add(), tot, merge(truth(c), 1, 0) if is_sym(c) else (1 if c else 0))
        if asc is True:
            return tot
        _SS[0] += 1
        free = z3.Int(f"searchsorted_unsorted!{_SS[0]}")
        R.CTX.assumptions.append(z3.And(free >= 0, free <= len(es)))
        if asc is False:
            return Sym(free, int)
        return merge(asc, tot, Sym(free, int))
    if isinstance(v, SymArray):
        return SymArray([one(x) for x in v.e], int)
    if isinstance(v, Masked):
        # element-wise on the selected rows: the selection mask is kept
        return Masked(SymArray([one(x) for x in v.arr.e], int), v.mask)
    if getattr(v, "_symarray", False):
        raise Unsupported(f"searchsorted of a {type(v).__name__}")
    return one(v)


def m_take(a, indices, axis=None, out=None, mode="raise"):
    es = as_list(a)
    n = len(es)
    res = []
    for i in as_list(indices):
        if mode == "clip":
            if is_sym(i):
                t = R.num(i)[0]
                i = Sym(z3.If(t < 0, 0, z3.If(t > n - 1, n - 1, t)), int)
            else:
                i = min(max(int(i), 0), n - 1)
        elif mode == "wrap":
            raise Unsupported("take(mode='wrap')")
        res.append(select(es, i))
    return SymArray(res, getattr(a, "dtype", None))


def m_clip(a, a_min=None, a_max=None, min=None, max=None, **kw):   # noqa: A002
    if kw:
        raise Unsupported(f"numpy.clip({sorted(kw)})")
    lo = a_min if a_min is not None else min
    hi = a_max if a_max is not None else max

    def one(x):
        if hi is not None:
            x = R.py_max([x, hi], False)
        if lo is not None:
            x = R.py_max([lo, x], True)
        return x
    if not getattr(a, "_symarray", False) and not isinstance(a, (list, tuple, numpy.ndarray)):
        return one(a)
    return elementwise(one, a)


def m_cumsum(a, axis=None, **kw):
    out, tot = [], 0
    for x in as_list(a):
        tot = R.binop(ast.Add(), tot, x)
        out.append(tot)
    return SymArray(out)


_reg(numpy.argsort, m_argsort)
_reg(numpy.sort, m_sort)
_reg(numpy.take, m_take)
_reg(numpy.clip, m_clip)
_reg(numpy.cumsum, m_cumsum)
_reg(numpy.zeros_like, m_zeros_like)
_reg(numpy.empty_like, m_zeros_like)
_reg(numpy.asarray, m_asarray)
_reg(numpy.array, m_asarray)
_reg(numpy.isin, m_isin)
_reg(numpy.unique, m_unique)
_reg(numpy.pad, m_pad)
_reg(numpy.argmax, m_argmax)
_reg(numpy.sum, np_sum)
_reg(numpy.any, np_any)
_reg(numpy.all, np_all)
_reg(numpy.max, np_max)
_reg(numpy.min, np_min)
_reg(numpy.amax, np_max)
_reg(numpy.amin, np_min)
_reg(npg.aggregate, m_aggregate)
_reg(numpy.array_equal, m_array_equal)
_reg(numpy.bincount, m_bincount)
_reg(numpy.diff, m_diff)
_reg(numpy.lexsort, m_lexsort)
_reg(numpy.full_like, m_full_like)
_reg(numpy.ones_like, m_ones_like)


def _reg_always(npf, model):
    """constructors: a symbolic column is returned even for concrete arguments, because the caller is about to
    store symbolic values into the result"""
    def h(args, kw):
        return model(*args, **kw)
    R.INTRINSICS[npf] = h


_reg_always(numpy.zeros, _m_filled(0))
_reg_always(numpy.ones, _m_filled(1))
_reg_always(numpy.empty, _m_filled(0))
_reg_always(numpy.full, m_full)


def _reg_seq(npf, model):
    def h(args, kw):
        seq = args[0] if args else kw.get("arrays")
        parts = list(seq) if isinstance(seq, (list, tuple)) else [seq]
        if any(getattr(a, "_symarray", False) for a in parts + list(args[1:])) or R.is_symbolic(list(args)):
            return model(*args, **kw)
        return R._native(npf, args, kw)
    R.INTRINSICS[npf] = h


_reg_seq(numpy.concatenate, m_concatenate)
_reg_seq(numpy.append, m_append)
_reg_seq(numpy.hstack, lambda arrays, **kw: m_concatenate(arrays))
def _m_accumulate(fn):
    def run(a, axis=0, **kw):
        out, cur = [], None
        for x in as_list(a):
            cur = x if cur is None else fn(cur, x)
            out.append(cur)
        return SymArray(out)
    return run


R.INTRINSICS[numpy.maximum.accumulate] = lambda args, kw: _m_accumulate(lambda a, b: merge(truth(R.compare(ast.GtE(), a, b)), a, b))(*args, **kw)
R.INTRINSICS[numpy.minimum.accumulate] = lambda args, kw: _m_accumulate(lambda a, b: merge(truth(R.compare(ast.LtE(), a, b)), a, b))(*args, **kw)
R.INTRINSICS[numpy.add.accumulate] = lambda args, kw: m_cumsum(*args, **kw)
R.INTRINSICS[numpy.add.at] = lambda args, kw: _m_ufunc_at("add")(*args, **kw)
R.INTRINSICS[numpy.maximum.at] = lambda args, kw: _m_ufunc_at("max")(*args, **kw)
R.INTRINSICS[numpy.minimum.at] = lambda args, kw: _m_ufunc_at("min")(*args, **kw)


def _i_issubdtype(args, kw):
    return numpy.issubdtype(*args)


R.INTRINSICS[numpy.issubdtype] = _i_issubdtype


def _i_enumerate(args, kw):
    a = args[0]
    if isinstance(a, SymArray):
        return list(enumerate(a.e, *args[1:]))
    return enumerate(*args, **kw)


R.INTRINSICS[enumerate] = _i_enumerate


# --------------------------------------------------------------------------------------
# guarded list / set and a pandas.Series shim (used by the input-check harness, C20)
# --------------------------------------------------------------------------------------
class GList:
    """list whose entries are present under guards: [(guard, value)] (result of a comprehension
    with a symbolic filter).  Only its length / emptiness is observable."""
    _symarray = True
    __hash__ = None

    def __init__(self, entries):
        self.entries = entries

    def _symlen(self):
        return Sym(z3.Sum([z3.If(R.zbool(g), 1, 0) for g, _ in self.entries]) if self.entries else z3.IntVal(0), int)

    def _copy(self):
        return GList(list(self.entries))


class SymSet:
    """set(...) of symbolic elements: only membership is observable"""
    _symarray = True
    __hash__ = None

    def __init__(self, elems):
        self.elems = list(elems)

    def __or__(self, other):
        return SymSet(self.elems + list(other.elems if isinstance(other, SymSet) else other))

    __ror__ = __or__

    def __iter__(self):
        return iter(self.elems)

    def __contains__(self, x):
        raise Unsupported("native membership test on a symbolic set")

    def _copy(self):
        return self


class SymSeries:
    """pandas.Series over a SymArray: the subset of the API the input checks use"""
    _symarray = True
    __hash__ = None

    def __init__(self, arr, name=None):
        self.a = arr if isinstance(arr, SymArray) else SymArray(list(arr))
        self.name = name

    e = property(lambda self: self.a.e)
    dtype = property(lambda self: self.a.dtype)
    values = property(lambda self: self.a)

    def __len__(self):
        return len(self.a.e)

    def __iter__(self):
        return iter(self.a.e)

    def _copy(self):
        return SymSeries(self.a._copy(), self.name)

    def copy(self):
        return self._copy()

    def _merge(self, c, other):
        return SymSeries(self.a._merge(c, other.a), self.name)

    def _symlen(self):
        return len(self.a.e)

    @property
    def is_unique(self):
        es = self.a.e
        pairs = [truth(R.compare(ast.NotEq(), es[i], es[j])) for i in range(len(es)) for j in range(i + 1, len(es))]
        return Sym(R.zbool(R.zand(*pairs)), bool)

    def duplicated(self):
        es = self.a.e
        return SymSeries(SymArray([Sym(R.zbool(R.zor(*[truth(R.compare(ast.Eq(), es[i], es[j])) for j in range(i)])), bool) for i in range(len(es))], bool))

    def isin(self, values):
        vs = list(values)
        return SymSeries(SymArray([R.compare(ast.In(), x, vs) if (is_sym(x) or any(is_sym(v) for v in vs)) else (x in vs) for x in self.a.e], bool))

    def _wrap(self, r):
        return SymSeries(r) if isinstance(r, SymArray) else r

    def __eq__(self, o): return self._wrap(self.a == (o.a if isinstance(o, SymSeries) else o))
    def __ne__(self, o): return self._wrap(self.a != (o.a if isinstance(o, SymSeries) else o))
    def __lt__(self, o): return self._wrap(self.a < (o.a if isinstance(o, SymSeries) else o))
    def __le__(self, o): return self._wrap(self.a <= (o.a if isinstance(o, SymSeries) else o))
    def __gt__(self, o): return self._wrap(self.a > (o.a if isinstance(o, SymSeries) else o))
    def __ge__(self, o): return self._wrap(self.a >= (o.a if isinstance(o, SymSeries) else o))
    def __invert__(self): return SymSeries(~self.a)
    def __and__(self, o): return self._wrap(self.a & (o.a if isinstance(o, SymSeries) else o))
    def __or__(self, o): return self._wrap(self.a | (o.a if isinstance(o, SymSeries) else o))

    def any(self):
        return self.a.any()

    def all(self):
        return self.a.all()

    def min(self):
        return self.a.min()

    def max(self):
        return self.a.max()

    def sum(self):
        return self.a.sum()

    def mean(self):
        return self.a.mean()

    @property
    def empty(self):
        return len(self.a.e) == 0

    @property
    def size(self):
        return len(self.a.e)

    def astype(self, t):
        return SymSeries(self.a.astype(t), self.name)

    def to_numpy(self, dtype=None, copy=False, na_value=None):
        if na_value is not None:
            raise Unsupported("Series.to_numpy(na_value=...)")
        return self.a._copy() if dtype is None else self.a.astype(dtype)

    def to_list(self):
        return list(self.a.e)

    def nunique(self, dropna=True):
        return UniqueRes(self.a)._symlen()

    @property
    def iloc(self):
        return self

    @property
    def index(self):
        raise Unsupported("pandas index of a symbolic Series")

    def map(self, arg, na_action=None):
        if isinstance(arg, dict) and not any(is_sym(k) for k in arg):
            out = []
            for x in self.a.e:
                if is_sym(x):
                    v = float("nan")
                    for k, val in arg.items():
                        v = merge(truth(R.compare(ast.Eq(), x, k)), val, v)
                    out.append(v)
                else:
                    out.append(arg.get(x, float("nan")))
            return SymSeries(SymArray(out), self.name)
        raise Unsupported("Series.map with a non-dict mapper")

    tolist = to_list

    def __getitem__(self, idx):
        if isinstance(idx, SymSeries):
            idx = idx.a
        r = self.a[idx]
        return SymSeries(r, self.name) if isinstance(r, SymArray) else r

    def unique(self):
        return list(self.a.e)       # duplicates are irrelevant for the membership tests made on it

    def groupby(self, by):
        return _GroupBy(self, by)

    def __getattr__(self, name):
        if name.startswith("_"):
            raise AttributeError(name)
        raise Unsupported(f"pandas.Series attribute .{name} is not modelled")


class _PerGroup(SymSeries):
    """result of a groupby reduction (one entry per group), represented with one entry per ROW of the group:
    sound for comparisons and any/all/max/min, not for sums or lengths"""

    def sum(self):
        raise Unsupported("sum over a per-group result")

    mean = sum

    def __len__(self):
        raise Unsupported("length of a per-group result")

    _symlen = __len__


class _GroupBy:
    def __init__(self, s, by):
        self.s, self.by = s, by

    def __getattr__(self, name):
        if name.startswith("_"):
            raise AttributeError(name)
        raise Unsupported(f"pandas groupby attribute .{name} is not modelled")

    def _gid(self):
        by = self.by
        return by.a if isinstance(by, SymSeries) else (by if isinstance(by, SymArray) else SymArray(list(by)))

    def nunique(self, dropna=True):
        gid, es = self._gid(), self.s.a.e
        out = []
        for i in range(len(es)):
            cnt = z3.IntVal(0)
            for j in range(len(es)):
                same_group = truth(R.compare(ast.Eq(), gid.e[j], gid.e[i]))
                first = z3.And([z3.Not(z3.And(truth(R.compare(ast.Eq(), gid.e[k], gid.e[i])), truth(R.compare(ast.Eq(), es[k], es[j])))) for k in range(j)]) if j else z3.BoolVal(True)
                cnt = cnt + z3.If(z3.And(same_group, first), 1, 0)
            out.append(Sym(cnt, int))
        return _PerGroup(SymArray(out, int))

    def _reduce(self, how):
        return _PerGroup(self.transform(how).a)

    def max(self):
        return self._reduce("max")

    def min(self):
        return self._reduce("min")

    def transform(self, how):
        if how not in ("max", "min", "sum"):
            raise Unsupported(f"groupby.transform({how})")
        gid = self._gid()
        tab = AggTable.__new__(AggTable)
        tab.gid, tab.a, tab.func, tab.fill = gid, self.s.a, how, 0
        out = []
        for i in gid.e:
            members = [truth(R.compare(ast.Eq(), g, i)) for g in gid.e]
            out.append(tab._agg(members, list(self.s.a.e)))
        return SymSeries(SymArray(out))


def _i_pd_series(args, kw):
    import pandas
    data = args[0] if args else kw.get("data")
    if isinstance(data, SymSeries):
        return SymSeries(data.a, kw.get("name", data.name))
    if isinstance(data, SymArray):
        return SymSeries(data, kw.get("name"))
    if isinstance(data, (list, tuple)) and any(is_sym(x) for x in data):
        return SymSeries(SymArray(list(data)), kw.get("name"))
    return R._native(pandas.Series, args, kw)


def _reg_pandas():
    import pandas
    R.INTRINSICS[pandas.Series] = _i_pd_series


_reg_pandas()


def _i_set(args, kw):
    if args and hasattr(args[0], "_symarray"):
        return SymSet(list(args[0]))
    if args and isinstance(args[0], (list, tuple)) and any(is_sym(x) for x in args[0]):
        return SymSet(list(args[0]))      # e.g. set(column.tolist())
    return set(*args)


R.INTRINSICS[set] = _i_set


def _is_pandas_dtype_pred(f):
    return ((getattr(f, "__module__", None) or "").startswith(("pandas.core.dtypes", "pandas.api.types"))
            and (getattr(f, "__name__", None) or "").startswith("is_") and (getattr(f, "__name__", None) or "").endswith("_dtype"))


def _call_dtype_pred(f, args, kw):
    a = args[0]
    return f(a.dtype if hasattr(a, "_symarray") else a)


R.TYPE_INTRINSICS.append((_is_pandas_dtype_pred, _call_dtype_pred))


# --------------------------------------------------------------------------------------
# guarded dictionary over a finite key domain (dict with symbolic integer keys)
# --------------------------------------------------------------------------------------
class GDict:
    """dict whose keys may be symbolic integers from a finite domain.
    slots: {key: [present_guard, value]};  a store with a symbolic key k updates every slot c of the
    domain under the condition k == c.  The key domain is a stated bound of the harness
    (R.CTX.key_domain, e.g. the person labels)."""
    _symarray = True
    __hash__ = None

    default, has_default = None, False

    def __init__(self, base=None):
        self.slots = {}
        for k, v in (base or {}).items():
            self.slots[k] = [True, v]

    def _copy(self):
        d = GDict()
        d.default, d.has_default = self.default, self.has_default
        for k, (p, v) in self.slots.items():
            d.slots[k] = [p, v._copy() if hasattr(v, "_copy") else (list(v) if type(v) is list else v)]
        return d

    def _merge(self, c, other):
        d = GDict()
        d.default, d.has_default = self.default, self.has_default
        for k in list(self.slots) + [k for k in other.slots if k not in self.slots]:
            pa, va = self.slots.get(k, [False, None])
            pb, vb = other.slots.get(k, [False, None])
            if k in self.slots and k in other.slots:
                v = va if va is vb else merge(c, _as_glist(va), _as_glist(vb)) if (isinstance(va, (GList, list)) or isinstance(vb, (GList, list))) else merge(c, va, vb)
            else:
                v = va if k in self.slots else vb
            d.slots[k] = [R.zor(R.zand(c, pa), R.zand(R.znot(c), pb)), v]
        return d

    def _domain(self):
        dom = getattr(R.CTX, "key_domain", None)
        if dom is None:
            raise Unsupported("symbolic dictionary key without a declared key domain")
        return list(dom)

    def _conds(self, key):
        """[(concrete key, condition)]"""
        if not is_sym(key):
            return [(int(key) if R.pytype(key) is int else key, True)]
        t, _ = R.num(key)
        dom = self._domain()
        # the key lies in the declared domain -- on the paths that reach this access
        R.CTX.assumptions.append(z3.Implies(R.zbool(R.CTX.guard), z3.Or([t == k for k in dom])))
        return [(k, t == k) for k in dom]

    def contains(self, key):
        cs = [R.zand(c, self.slots[k][0]) for k, c in self._conds(key) if k in self.slots]
        r = R.zor(*cs)
        return r if isinstance(r, bool) else Sym(r, bool)

    def store(self, key, value):
        for k, c in self._conds(key):
            if c is True:
                self.slots[k] = [True, value]
            else:
                if k in self.slots:
                    p, old = self.slots[k]
                    nv = merge(c, _fresh(value), old) if not isinstance(old, (GList, list)) and not isinstance(value, (GList, list)) else merge(c, _as_glist(_fresh(value)), _as_glist(old))
                    self.slots[k] = [R.zor(p, c), nv]
                else:
                    self.slots[k] = [c, _fresh(value)]

    def lookup(self, key, default=None, have_default=False):
        out = None
        found = []
        for k, c in self._conds(key):
            if k not in self.slots:
                continue
            p, v = self.slots[k]
            g = R.zand(c, p)
            found.append(g)
            out = v if out is None else merge(R.zbool(g), v, out) if not isinstance(v, (GList, list)) else merge(R.zbool(g), _as_glist(v), _as_glist(out))
        missing = R.znot(R.zor(*found))
        if have_default:
            if out is None:
                return default
            if isinstance(out, (GList, list)) or isinstance(default, (GList, list)):
                return merge(R.zbool(missing), _as_glist(default), _as_glist(out))
            return merge(R.zbool(missing), default, out)
        R.CTX.err(missing, "KeyError")
        if out is None:
            raise R.PathEnd()
        return out

    def get(self, key, default=None):
        return self.lookup(key, default, True)

    def __getitem__(self, key):
        if self.has_default:
            return self.lookup(key, self.default, True)      # Counter / defaultdict: missing key -> default
        return self.lookup(key)

    def __setitem__(self, key, value):
        self.store(key, value)

    def ref(self, key):
        return SlotRef(self, key)


class SlotRef:
    """d[k] used as the receiver of a mutating call (d[k].append(x)) with a symbolic k"""
    _symarray = True

    def __init__(self, d, key):
        self.d, self.key = d, key

    def append(self, x):
        for k, c in self.d._conds(self.key):
            if k not in self.d.slots:
                continue
            p, v = self.d.slots[k]
            gl = _as_glist(v)
            gl = GList(list(gl.entries) + [(R.zand(c, p), x)])
            self.d.slots[k] = [p, gl]


def _fresh(v):
    if type(v) is list:
        return GList([(True, x) for x in v])
    return v


def _as_glist(v):
    if isinstance(v, GList):
        return v
    if isinstance(v, (list, tuple)):
        return GList([(True, x) for x in v])
    if v is None:
        return GList([])
    raise Unsupported(f"cannot treat {type(v).__name__} as a guarded list")


def _same_value(a, b):
    if a is b:
        return True
    if is_sym(a) or is_sym(b):
        return is_sym(a) and is_sym(b) and a.t.eq(b.t)
    try:
        return type(a) is type(b) and bool(a == b)
    except Exception:   # noqa: BLE001
        return False


def _same_guard(a, b):
    if a is b:
        return True
    if isinstance(a, bool) or isinstance(b, bool):
        return a is b
    return a.eq(b)


def _glist_merge(self, c, other):
    """entries present under c come from self, under not c from other.  Entries are aligned by
    position while their values agree (append-only lists share their history), so that a branch that
    merely re-guards old entries does not duplicate them."""
    other = _as_glist(other)
    a, b = self.entries, other.entries
    out = []
    i = 0
    while i < len(a) and i < len(b) and _same_value(a[i][1], b[i][1]):
        ga, gb = a[i][0], b[i][0]
        if a[i] is b[i] or _same_guard(ga, gb):
            out.append(a[i])
        else:
            out.append((R.zor(R.zand(c, ga), R.zand(R.znot(c), gb)), a[i][1]))
        i += 1
    out += [(R.zand(c, g), v) for g, v in a[i:]]
    out += [(R.zand(R.znot(c), g), v) for g, v in b[i:]]
    return GList([e for e in out if e[0] is not False])


GList._merge = _glist_merge
GList.append = lambda self, x: self.entries.append((True, x))
