"""Shared driver for the CrossHair conditions on _gettsim.groupings (used by C01, C02, C12, C20)."""
from __future__ import annotations

import itertools

import numpy

from gsv import common, xh
from gsv import harness_groupings as H

# structural classes of family structures that fg_id_numpy mishandles (known findings, keyed by tag);
# each has a fixed concrete witness that is replayed on the real function every run
FG_WITNESS = {
    "stepchild": dict(hh=[0, 0, 0], alt=[40, 40, 2], ep=[1, 0, -1], e1=[-1, -1, 1], e2=[-1, -1, -1]),
    "child-with-partner": dict(hh=[0, 0, 0], alt=[60, 20, 20], ep=[-1, 2, 1], e1=[-1, 0, -1], e2=[-1, -1, -1]),
    "two-nonpartner-parents": dict(hh=[0, 0, 0], alt=[40, 40, 2], ep=[-1, -1, -1], e1=[-1, -1, 0], e2=[-1, -1, 1]),
}


def partition(ids):
    ids = list(ids)
    return frozenset(frozenset(j for j in range(len(ids)) if ids[j] == ids[i]) for i in range(len(ids)))


def fg_real(hh, alt, ep, e1, e2, order=None, labels=None):
    """real fg_id_numpy on numpy arrays, rows permuted by `order`; returns the partition over original persons"""
    from _gettsim.groupings import fg_id_numpy
    from gsv import gt
    fg_id_numpy = gt.bound(fg_id_numpy)
    n = len(hh)
    order = list(range(n)) if order is None else list(order)
    lab = list(range(n)) if labels is None else list(labels)
    rl = lambda ptr: [(-1 if q < 0 else lab[q]) for q in ptr]   # noqa: E731
    arr = lambda x: numpy.array([x[i] for i in order])          # noqa: E731
    ids = fg_id_numpy(arr(lab), arr(hh), arr(alt), arr(rl(ep)), arr(rl(e1)), arr(rl(e2)))
    back = [None] * n
    for pos, i in enumerate(order):
        back[i] = int(ids[pos])
    return partition(back), back


def fg_order_dependent(w):
    n = len(w["hh"])
    base, _ = fg_real(**w)
    for pi in itertools.permutations(range(n)):
        p, _ = fg_real(**w, order=pi)
        if p != base:
            return True, pi
    return False, None


def known_fg_classes(ck, pid):
    """classes listed as findings for this property whose witness still fails on the real code"""
    active = []
    for tag, w in FG_WITNESS.items():
        key = ["fg-structure", tag]
        if not any(k["key"] == key for k in ck.known):
            continue
        bad, pi = fg_order_dependent(w)
        if bad:
            ck.violation(key, f"fg_id_numpy: family structure class '{tag}' (witness {w}) gives a different partition for row order {pi}", {"kind": "fg", "w": w})
            active.append(tag)
        # a witness that no longer fails means the class is repaired: it is then verified like any other
    return active


def classify_fg(hh, alt, ep, e1, e2):
    n = len(hh)
    out = set()
    for c in range(n):
        ps = [q for q in (e1[c], e2[c]) if q >= 0]
        if ep[c] >= 0 and alt[c] < 25 and any(hh[q] == hh[c] for q in ps):
            out.add("child-with-partner")
        co = [q for q in ps if hh[q] == hh[c]]
        if len(co) == 2 and ep[co[0]] != co[1]:
            out.add("two-nonpartner-parents")
        for q in ps:
            if ep[q] >= 0 and ep[q] not in ps and hh[q] == hh[c]:
                out.add("stepchild")
    return sorted(out)


def run_conditions(ck, pid, n, conds, timeout, excl, twins=()):
    """run CrossHair on the named conditions; returns {cond: (verdict, cex)}"""
    path = xh.write_harness(pid, f"groupings_n{n}", H.render(n, excl))
    res = xh.run_all(path, list(conds) + list(twins), timeout, common.JOBS)
    ck.queries += len(res)
    for f, (verdict, cex, secs, tail) in res.items():
        ck.solver_time += secs
    # vacuity twins: `post: False` must be refuted (the condition body is reachable)
    for t in twins:
        if res[t][0] != "counterexample":
            raise common.HarnessError(f"{pid}: reachability twin {t} was not refuted ({res[t][0]}): {res[t][3][-200:]}")
    return {c: res[c] for c in conds}
