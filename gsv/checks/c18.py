"""C18 -- statutory schedules are well-formed and evaluated exactly.

Per piecewise_* parameter x change date: the real loader/parser output is compared with the
schedule rebuilt independently from the raw YAML; rulesym executes the real
``piecewise_polynomial`` on a symbolic argument (one path per interval) and z3 must refute
``exists x: |real(x) - math(x)| > eps``.  Income tax / soli: shape obligations over all reals.
"""
from __future__ import annotations

import datetime
import fractions
import json
import math

import numpy
import z3

from gsv import common, gt
from gsv import rulesym as R
from gsv.reference import resolver as ref

EPS = fractions.Fraction(1, 10 ** 6)
CONT_JUMP = 1e-6


def zfrac(fr):
    fr = fractions.Fraction(fr)
    return z3.RealVal(f"{fr.numerator}/{fr.denominator}")


def ref_term(s: ref.Schedule, x):
    """z3 term of the mathematical schedule at symbolic x"""
    out = None
    for k in reversed(range(s.n)):
        if k == 0:
            v = zfrac(s.icpt[0])
        else:
            h = x - zfrac(s.lower[k])
            v = zfrac(s.icpt[k])
            hp = h
            for p in range(s.deg):
                v = v + zfrac(s.rates[p][k]) * hp
                hp = hp * h
        if out is None:
            out = v
        else:
            out = z3.If(x < zfrac(s.upper[k]), v, out)
    return out


def piecewise_params():
    """[(group, param)] with a piecewise type, from the raw files"""
    from _gettsim.config import INTERNAL_PARAMS_GROUPS, RESOURCE_DIR
    rs = ref.Resolver(RESOURCE_DIR / "parameters")
    out = []
    for g in INTERNAL_PARAMS_GROUPS:
        for p in rs.params_of(g):
            spec = rs.raw(g)[p]
            if isinstance(spec, dict) and str(spec.get("type", "")).startswith("piecewise"):
                out.append((g, p))
    return rs, out


def real_parse(group, param, date):
    from _gettsim import policy_environment as PE
    raw = PE._load_parameter_group_from_yaml(date, group, parameters=[param])
    if param not in raw:
        return None
    return PE._parse_piecewise_parameters({param: raw[param]})[param]


def sym_eval(pp, x, ctx=None):
    from _gettsim.piecewise_functions import piecewise_polynomial
    R.NONFINITE_IS_ERROR[0] = True     # symbolic * inf ends the path under an error guard ("noerr" obligation below)
    try:
        v, ctx = R.run(piecewise_polynomial, kwargs=dict(
            x=x, thresholds=pp["thresholds"], rates=pp["rates"],
            intercepts_at_lower_thresholds=pp["intercepts_at_lower_thresholds"]), ctx=ctx)
    finally:
        R.NONFINITE_IS_ERROR[0] = False
    return v, ctx


def concrete_eval(pp, x):
    from _gettsim.piecewise_functions import piecewise_polynomial
    return float(piecewise_polynomial(numpy.float64(x), pp["thresholds"], pp["rates"],
                                      pp["intercepts_at_lower_thresholds"]))


def check_schedule(ck, rs, group, param, date, deep):
    name = f"{group}.{param}@{date}"
    pp = real_parse(group, param, date)
    val = rs.resolve(group, param, date)
    if pp is None or val is ref.MISSING:
        if (pp is None) != (val is ref.MISSING):
            ck.violation(["exists", group, param, str(date)],
                         f"{name}: loader and reference disagree on existence", {"kind": "exists", "group": group, "param": param, "date": str(date)})
        return None
    try:
        s = ref.Schedule(val, name)
    except ref.RefError as e:
        # ill-formed YAML that the loader accepted silently?
        ck.violation(["illformed", group, param, str(date)], f"{name}: {e} but the loader accepted it",
                     {"kind": "illformed", "group": group, "param": param, "date": str(date)})
        return None
    th = [float(t) for t in pp["thresholds"]]
    # --- well-formedness (concrete asserts on the real parser's output) -------------------
    ok = th[0] == -math.inf and th[-1] == math.inf and all(a < b for a, b in zip(th, th[1:]))
    ok = ok and len(th) == s.n + 1 and all(ref.close(fractions.Fraction(a) if abs(a) != math.inf else a, b)
                                           for a, b in zip(th, s.thresholds()))
    first_rate_zero = all(float(pp["rates"][p][0]) == 0.0 for p in range(pp["rates"].shape[0]))
    ck.obligations += 1
    if ok and first_rate_zero:
        ck.discharged += 1
    else:
        what = f"{name}: thresholds/first interval ill-formed in the parsed schedule: {th}"
        if not ck.violation(["wellformed", group, param, str(date)], what,
                            {"kind": "wellformed", "group": group, "param": param, "date": str(date)}):
            ck.discharged += 1
    # --- exact evaluation: forall x ------------------------------------------------------
    x = R.Sym(z3.Real("x"), float)
    v, ctx = sym_eval(pp, x)
    ck.functions |= ctx.funcs
    diff = R.term_of(v, float) - ref_term(s, x.t)
    # tolerance: absolute eps plus relative 1e-12*|x| (float-computed intercepts / progression factor)
    tol = zfrac(EPS) + zfrac(fractions.Fraction(1, 10 ** 12)) * z3.If(x.t >= 0, x.t, -x.t)
    r, m = ck.oblige(f"eval {name}", [z3.Or(diff > tol, diff < -tol)], 60,
                     sample={"schedule": name, "intervals": s.n, "degree": s.deg,
                             "paths": s.n, "claim": "forall x: |piecewise_polynomial(x) - schedule(x)| <= 1e-6 + 1e-12|x|"})
    ck.nontrivial.add(("eval", group, param, json.dumps(R.z3_to_py(z3.RealVal(0)) if False else [str(t) for t in th])))
    if r == "sat":
        xv = R.z3_to_fraction(m.eval(x.t, model_completion=True))
        real = concrete_eval(pp, float(xv))
        want = float(s.eval_exact(fractions.Fraction(float(xv))))
        if abs(real - want) > 1e-6 + 1e-12 * abs(float(xv)):
            ck.violation(["eval", group, param, str(date)],
                         f"{name}: piecewise_polynomial({float(xv)!r}) = {real!r} but the schedule gives {want!r}",
                         {"kind": "eval", "group": group, "param": param, "date": str(date), "x": float(xv)})
        else:
            common.spurious("C18", f"{name}: model x={float(xv)} does not reproduce ({real} vs {want})")
    # error guards of the evaluation (index errors etc.) must be unreachable
    if ctx.errors:
        r2, m2 = ck.oblige(f"noerr {name}", [z3.Or([g for g, k, w in ctx.errors])], 30)
        if r2 == "sat":
            xv = float(R.z3_to_fraction(m2.eval(x.t, model_completion=True)))
            try:
                got = concrete_eval(pp, xv)
                if math.isfinite(got):
                    common.spurious("C18", f"{name}: error guard model x={xv} does not raise")
                else:
                    ck.violation(["nonfinite", group, param, str(date)], f"{name}: evaluation gives {got} at x={xv}",
                                 {"kind": "eval", "group": group, "param": param, "date": str(date), "x": xv})
            except Exception as e:
                ck.violation(["raises", group, param, str(date)], f"{name}: evaluation raises {type(e).__name__} at x={xv}",
                             {"kind": "eval", "group": group, "param": param, "date": str(date), "x": xv})
    # --- FP side: thresholds +- 1 ulp, concrete on the real function ---------------------------
    pts = []
    for t in th[1:-1]:
        pts += [numpy.nextafter(t, -math.inf), t, numpy.nextafter(t, math.inf)]
    pts += [th[1] - 1e6, th[-2] + 1e6, th[-2] + 1e9] if len(th) > 2 else [0.0, -1e6, 1e6]
    bad = []
    for p in pts:
        real = concrete_eval(pp, p)
        want = float(s.eval_exact(fractions.Fraction(float(p))))
        if not (abs(real - want) <= 1e-6 + 1e-12 * abs(p)) or not math.isfinite(real):
            bad.append((float(p), real, want))
    ck.obligations += 1
    ck.extra["ulp_points_evaluated"] = ck.extra.get("ulp_points_evaluated", 0) + len(pts)
    if not bad:
        ck.discharged += 1
    else:
        p, real, want = bad[0]
        if not ck.violation(["ulp", group, param, str(date)], f"{name}: at x={p!r} real={real!r} schedule={want!r}",
                            {"kind": "eval", "group": group, "param": param, "date": str(date), "x": p}):
            ck.discharged += 1
    return pp, s


def ref_term_mult(s: ref.Schedule, x, m):
    """mathematical schedule with every rate scaled by m and the intercepts regenerated from intercept[0]
    (what the docstring of piecewise_polynomial promises for rates_multiplier)"""
    out = None
    acc = zfrac(s.icpt[0])
    vals = []
    for k in range(s.n):
        if k == 0:
            vals.append(acc)
            continue
        h = x - zfrac(s.lower[k])
        v, hp = acc, h
        for p in range(s.deg):
            v = v + m * zfrac(s.rates[p][k]) * hp
            hp = hp * h
        vals.append(v)
        if k < s.n - 1:
            w = fractions.Fraction(s.upper[k]) - fractions.Fraction(s.lower[k])
            for p in range(s.deg):
                acc = acc + m * zfrac(s.rates[p][k] * w ** (p + 1))
    for k in reversed(range(s.n)):
        out = vals[k] if out is None else z3.If(x < zfrac(s.upper[k]), vals[k], out)
    return out


def concrete_eval_mult(pp, x, m):
    from _gettsim.piecewise_functions import piecewise_polynomial
    return float(piecewise_polynomial(numpy.float64(x), pp["thresholds"], pp["rates"],
                                      pp["intercepts_at_lower_thresholds"], rates_multiplier=numpy.float64(m)))


def multiplier_obligation(ck, group, param, date, pp, s):
    """rates_multiplier branch: forall x, forall m in [0, 2]"""
    from _gettsim.piecewise_functions import piecewise_polynomial
    name = f"{group}.{param}@{date}"
    x = R.Sym(z3.Real("x"), float)
    m = R.Sym(z3.Real("m"), float)
    R.NONFINITE_IS_ERROR[0] = True
    try:
        v, ctx = R.run(piecewise_polynomial, kwargs=dict(
            x=x, thresholds=pp["thresholds"], rates=pp["rates"],
            intercepts_at_lower_thresholds=pp["intercepts_at_lower_thresholds"], rates_multiplier=m))
    finally:
        R.NONFINITE_IS_ERROR[0] = False
    ck.functions |= ctx.funcs
    diff = R.term_of(v, float) - ref_term_mult(s, x.t, m.t)
    tol = zfrac(EPS) + zfrac(fractions.Fraction(1, 10 ** 12)) * z3.If(x.t >= 0, x.t, -x.t)
    pre = [m.t >= 0, m.t <= 2]
    r, mod = ck.oblige(f"eval-multiplier {name}", [*pre, z3.Or(diff > tol, diff < -tol)], 60,
                       sample={"schedule": name, "claim": "forall x, 0<=m<=2: piecewise_polynomial(x, rates_multiplier=m) == schedule with rates*m, intercepts regenerated"})
    ck.nontrivial.add(("eval-multiplier", group, param, str(date)))
    if r == "sat":
        xv = float(R.z3_to_fraction(mod.eval(x.t, model_completion=True)))
        mv = float(R.z3_to_fraction(mod.eval(m.t, model_completion=True)))
        if _mult_fails(pp, s, xv, mv):
            ck.violation(["eval-multiplier", group, param, str(date)],
                         f"{name}: piecewise_polynomial({xv!r}, rates_multiplier={mv!r}) = {concrete_eval_mult(pp, xv, mv)!r} but the scaled schedule gives {_mult_want(s, xv, mv)!r}",
                         {"kind": "eval-multiplier", "group": group, "param": param, "date": str(date), "x": xv, "m": mv})
        else:
            common.spurious("C18", f"{name}: multiplier model x={xv} m={mv} does not reproduce")
    if ctx.errors:
        r2, m2 = ck.oblige(f"noerr-multiplier {name}", [*pre, z3.Or([g for g, k, w in ctx.errors])], 30)
        if r2 == "sat":
            xv = float(R.z3_to_fraction(m2.eval(x.t, model_completion=True)))
            mv = float(R.z3_to_fraction(m2.eval(m.t, model_completion=True)))
            try:
                got = concrete_eval_mult(pp, xv, mv)
                if math.isfinite(got):
                    common.spurious("C18", f"{name}: multiplier error guard model x={xv} m={mv} does not raise")
                else:
                    ck.violation(["nonfinite-multiplier", group, param, str(date)], f"{name}: evaluation with rates_multiplier gives {got} at x={xv}, m={mv}",
                                 {"kind": "eval-multiplier", "group": group, "param": param, "date": str(date), "x": xv, "m": mv})
            except Exception as e:   # noqa: BLE001
                ck.violation(["raises-multiplier", group, param, str(date)], f"{name}: evaluation with rates_multiplier raises {type(e).__name__} at x={xv}, m={mv}",
                             {"kind": "eval-multiplier", "group": group, "param": param, "date": str(date), "x": xv, "m": mv})


def _mult_want(s, xv, mv):
    x, m = fractions.Fraction(xv), fractions.Fraction(mv)
    acc = fractions.Fraction(s.icpt[0])
    for k in range(s.n):
        last = k == s.n - 1
        if k > 0 and (last or x < s.upper[k]):
            h = x - fractions.Fraction(s.lower[k])
            return float(acc + sum(m * s.rates[p][k] * h ** (p + 1) for p in range(s.deg)))
        if k == 0:
            if s.n == 1 or x < s.upper[0]:
                return float(acc)
            continue
        w = fractions.Fraction(s.upper[k]) - fractions.Fraction(s.lower[k])
        acc += sum(m * s.rates[p][k] * w ** (p + 1) for p in range(s.deg))
    return float(acc)


def _mult_fails(pp, s, xv, mv):
    real, want = concrete_eval_mult(pp, xv, mv), _mult_want(s, xv, mv)
    return not (abs(real - want) <= 1e-6 + 1e-12 * abs(xv))


def shape_obligations(ck, name, pp, s, kind):
    """income tax / soli shape, forall real arguments"""
    xs = [R.Sym(z3.Real(f"x{i}"), float) for i in range(3)]
    fs = []
    for x in xs:
        v, ctx = sym_eval(pp, x)
        fs.append(R.term_of(v, float))
    x1, x2, x3 = (x.t for x in xs)
    f1, f2, f3 = fs
    eps = zfrac(EPS)
    top = zfrac(s.rates[0][-1])
    # soli: continuity only (Lipschitz with the largest interval rate); the cap is a separate claim
    lip = top if kind == "eink_st" else zfrac(max(s.rates[0]))
    # vacuity twin: the assertion site is reachable (some x with f > 0)
    r, _ = ck.solve([f1 >= 0, x1 <= x2])
    if r != "sat":
        raise common.HarnessError(f"C18 vacuity twin failed for {name}")
    obs = []
    obs.append(("monotone", [x1 <= x2, f1 > f2 + eps]))
    lab = "lipschitz_top_rate(continuity + marginal rate <= top rate)" if kind == "eink_st" else "lipschitz_max_rate(continuity)"
    obs.append((lab, [x1 <= x2, f2 - f1 > lip * (x2 - x1) + eps]))
    if kind == "eink_st":
        allowance = zfrac(s.upper[0])
        obs.append(("zero_up_to_allowance", [x1 <= allowance, z3.Or(f1 > eps, f1 < -eps)]))
        obs.append(("convex(midpoint)", [x3 * 2 == x1 + x2, f3 * 2 > f1 + f2 + 2 * eps]))
    else:
        obs.append(("soli<=rate*tax+1ct", [x1 >= 0, f1 > top * x1 + z3.RealVal("1/100")]))
        obs.append(("nonneg", [f1 < -eps]))
    for label, cons in obs:
        r, m = ck.oblige(f"{label} {name}", cons, 120,
                         sample={"schedule": name, "claim": label, "eps": "1e-6", "top_rate": str(float(s.rates[0][-1]))})
        ck.nontrivial.add((label, name))
        if r == "sat":
            vals = [float(R.z3_to_fraction(m.eval(x, model_completion=True))) for x in (x1, x2, x3)]
            reals = [concrete_eval(pp, v) for v in vals]
            if _shape_fails(label, vals, reals, float(s.rates[0][-1]), float(s.upper[0]), float(max(s.rates[0]))):
                ck.violation(["shape", label.split("(")[0], name.split("@")[0], name.split("@")[1]],
                             f"{name}: {label} violated at x={vals}, f={reals}",
                             {"kind": "shape", "label": label, "name": name, "x": vals})
            else:
                common.spurious("C18", f"{name}: {label} model {vals} -> {reals} does not reproduce")


def _shape_fails(label, x, f, top, allowance, maxrate=None):
    e = 1e-6 * 0.5
    if label.startswith("lipschitz_max"):
        return x[0] <= x[1] and f[1] - f[0] > maxrate * (x[1] - x[0]) + e
    if label.startswith("monotone"):
        return x[0] <= x[1] and f[0] > f[1] + e
    if label.startswith("lipschitz"):
        return x[0] <= x[1] and f[1] - f[0] > top * (x[1] - x[0]) + e
    if label.startswith("zero"):
        return x[0] <= allowance and abs(f[0]) > e
    if label.startswith("convex"):
        return f[2] * 2 > f[0] + f[1] + 2 * e
    if label.startswith("soli<="):
        return x[0] >= 0 and f[0] > top * x[0] + 0.01 - 1e-9
    if label.startswith("nonneg"):
        return f[0] < -e
    return False


def run(tier):
    ck = common.Check("C18", tier)
    rs, params = piecewise_params()
    lo = datetime.date(2015, 1, 1) if tier == "quick" else datetime.date(1900, 1, 1)
    n_sched = 0
    for group, param in params:
        spec = rs.raw(group)[param]
        dates = set(rs.entry_dates(spec))
        # a parameter that deviates from another one changes whenever that one changes
        for d in list(dates):
            dev = spec[d].get("deviation_from") if isinstance(spec[d], dict) else None
            if dev and "." in dev:
                g2, p2 = dev.split(".")
                dates |= set(rs.entry_dates(rs.raw(g2)[p2]))
        all_dates = sorted(dates)
        # quick: schedules in force from 2015 on (the entry in force on 2015-01-01 and all later ones)
        sel = [d for d in all_dates if d >= lo]
        earlier = [d for d in all_dates if d < lo]
        if earlier and tier == "quick":
            sel = [earlier[-1], *sel]
        for d in sel:
            got = check_schedule(ck, rs, group, param, d, tier == "thorough")
            if got is None:
                continue
            n_sched += 1
            pp, s = got
            if (group, param) == ("eink_st", "eink_st_tarif"):
                shape_obligations(ck, f"{group}.{param}@{d}", pp, s, "eink_st")
            if (group, param) == ("soli_st", "soli_st"):
                shape_obligations(ck, f"{group}.{param}@{d}", pp, s, "soli")
            # rates_multiplier branch: the schedule used with it in production (quick) / every linear schedule (thorough)
            if (group, param) == ("arbeitsl_geld_2", "eink_anr_frei") or (tier == "thorough" and s.deg == 1):
                multiplier_obligation(ck, group, param, d, pp, s)
    ck.bounds = {"schedules": n_sched, "dates": "entries in force from 2015-01-01" if tier == "quick" else "every entry of every piecewise parameter",
                 "arguments": "all reals (per interval path)", "eps": "1e-6 + 1e-12|x|",
                 "rates_multiplier": "symbolic in [0, 2]; arbeitsl_geld_2.eink_anr_frei (quick), every piecewise_linear schedule (thorough)"}
    ck.stubs = ["numpy.searchsorted -> forked bin with threshold constraints", "floats as exact reals over the stored doubles"]
    ck.assumptions = ["float arithmetic modelled as exact real arithmetic over the stored double constants; FP deviation checked concretely at thresholds +-1 ulp"]
    ck.rule = "one obligation per (schedule, change date, claim); distinct by (claim, parameter, thresholds)"
    ck.explanation = ("Real piecewise_polynomial executed symbolically (one path per interval) against the schedule rebuilt "
                      "independently from raw YAML; z3 refutes any real argument with a difference > eps; tax/soli shape "
                      "(monotone, Lipschitz with top rate => continuity, convexity, zero up to allowance, soli cap) proved for all reals.")
    ck.extra["schedules_checked"] = n_sched
    return ck.finish()


def replay(path):
    d = json.load(open(path))["replay"]
    rs, _ = piecewise_params()
    if d["kind"] in ("eval",):
        date = datetime.date.fromisoformat(d["date"])
        pp = real_parse(d["group"], d["param"], date)
        s = ref.Schedule(rs.resolve(d["group"], d["param"], date))
        real = concrete_eval(pp, d["x"])
        want = float(s.eval_exact(fractions.Fraction(d["x"])))
        print("real", real, "schedule", want)
        return 1 if abs(real - want) > 1e-6 + 1e-12 * abs(d["x"]) else 0
    if d["kind"] == "eval-multiplier":
        date = datetime.date.fromisoformat(d["date"])
        pp = real_parse(d["group"], d["param"], date)
        s = ref.Schedule(rs.resolve(d["group"], d["param"], date))
        print("real", concrete_eval_mult(pp, d["x"], d["m"]), "scaled schedule", _mult_want(s, d["x"], d["m"]))
        return 1 if _mult_fails(pp, s, d["x"], d["m"]) else 0
    if d["kind"] == "shape":
        g, rest = d["name"].split(".", 1)
        p, dt = rest.split("@")
        pp = real_parse(g, p, datetime.date.fromisoformat(dt))
        s = ref.Schedule(rs.resolve(g, p, datetime.date.fromisoformat(dt)))
        reals = [concrete_eval(pp, v) for v in d["x"]]
        print("x", d["x"], "f", reals)
        return 1 if _shape_fails(d["label"], d["x"], reals, float(s.rates[0][-1]), float(s.upper[0]), float(max(s.rates[0]))) else 0
    print("replay kind", d["kind"], "is re-checked by running the check")
    return 0
