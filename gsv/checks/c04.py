"""C04 -- a column's value is independent of which other targets are requested (decidable part).

For pairs of configurations (S, S') with t in both, the graphs are built by the real loader; for every
node of cone(t) in the pruned graph of S the definition must be equal in S' (same code objects, closure
constants and parents -- reflexive -- or z3-proved equal for all parent values) and cone(t) must have
the same node set.  By induction over the DAG the value of t agrees for all data.  Configurations are
enumerated (seeded sample quick / every computable node thorough), data with and without unused
documented columns.  Result assembly, debug=True and row order of the returned frame are pandas/dags
behaviour outside the solver claim.
"""
from __future__ import annotations

import datetime
import json
import multiprocessing
import random

from gsv import common, defeq, gt, symdag
from _gettsim.config import TYPES_INPUT_VARIABLES

_STATE = {}


def cone_nodes(dag, t):
    import networkx as nx
    return set(nx.ancestors(dag.graph, t)) | {t}


def _work(args):
    import warnings
    warnings.filterwarnings("ignore")
    date, t, other, minimal = args
    from _gettsim.config import DEFAULT_TARGETS, TYPES_INPUT_VARIABLES
    ck = common.Check.__new__(common.Check)
    ck.queries, ck.solver_time = 0, 0.0
    ck.solve = lambda cons, timeout_s=60: common.Check.solve(ck, cons, timeout_s)
    out = {"t": t, "diffs": [], "nodes": 0, "queries": 0, "error": None, "extra_columns": None}
    try:
        a = symdag.Dag(date, targets=[t])
        if minimal == "override-target":
            # a computed ancestor b of t is supplied as data; targets [t] vs [t, b].  Requesting a target that is
            # also a data column is an error on the pinned tree (loud: nothing to compare); if it computes, t must not
            # depend on whether b was requested
            import networkx as nx
            anc = sorted(n for n in nx.ancestors(a.graph, t) if n in a.funcs and a.kind(n) == "rule")
            if not anc:
                return out
            bcol = anc[len(anc) // 2]
            out["extra_columns"] = [bcol]
            a = symdag.Dag(date, targets=[t], data_cols=[*TYPES_INPUT_VARIABLES, bcol])
            try:
                b = symdag.Dag(date, targets=[t, bcol], data_cols=[*TYPES_INPUT_VARIABLES, bcol])
            except Exception as e:   # noqa: BLE001 -- loud refusal of the second target set
                out["refused"] = type(e).__name__
                return out
        elif minimal == "sibling":
            # an additional, unused data column whose name is a time-unit sibling of a rule in the cone of t and
            # that nothing in the cone reads: the documented inputs plus that column
            extra = sibling_columns(a, t)
            out["extra_columns"] = extra
            if not extra:
                return out
            b = symdag.Dag(date, targets=[t], data_cols=[*TYPES_INPUT_VARIABLES, *extra])
        elif minimal:
            # same target, only the required input columns present (no unused documented columns)
            roots = [n for n in a.graph.nodes if a.kind(n) == "input"]
            b = symdag.Dag(date, targets=[t], data_cols=roots)
        else:
            b = symdag.Dag(date, targets=sorted(set(DEFAULT_TARGETS) | {t} | ({other} if other else set())))
        ca, cb = cone_nodes(a, t), cone_nodes(b, t)
        if ca != cb:
            out["diffs"].append(f"cone of {t} differs: only S {sorted(ca - cb)[:5]}, only S' {sorted(cb - ca)[:5]}")
        for n in sorted(ca & cb):
            if n.endswith("_params"):
                continue
            d = defeq.compare_node(ck, t, a, b, n)
            out["nodes"] += 1
            if d:
                out["diffs"].append(d)
        out["queries"] = ck.queries
    except Exception as e:   # noqa: BLE001
        out["error"] = f"{type(e).__name__}: {e}"[:200]
    return out


def sibling_columns(dag, t, limit=6):
    """extra data columns `<base>_<other unit>[_<group>]` for policy RULES `<base>_<unit>[_<group>]` in cone(t) such
    that no time-unit sibling of the rule (any unit) is in the graph of t or a documented input.  A rule keeps
    its own definition (C13: rules are never shadowed by derived functions), nothing in the graph reads the
    column or a node that could be derived from it, so under any reading of the override rules the value of
    t cannot depend on it.  (Siblings of derived nodes -- automatic aggregations, conversions -- are not used:
    for those a supplied sibling legitimately becomes the source, C05/C13.)"""
    import re
    from _gettsim.config import SUPPORTED_GROUPINGS, SUPPORTED_TIME_UNITS
    units = list(SUPPORTED_TIME_UNITS)
    pat = re.compile(r"^(?P<base>.+)_(?P<u>" + "|".join(units) + r")(?P<g>(_(" + "|".join(SUPPORTED_GROUPINGS) + r"))?)$")
    out = []
    for n in sorted(cone_nodes(dag, t)):
        if dag.kind(n) not in ("rule", "paramonly", "skipvec"):
            continue
        m = pat.match(n)
        if not m:
            continue
        sibs = [f"{m['base']}_{u}{m['g']}" for u in units if u != m["u"]]
        if any(sb in dag.graph.nodes or sb in TYPES_INPUT_VARIABLES for sb in sibs):
            continue
        # group-level variants of the same base in the graph could be derived from the column as well
        if any(x != n and x.startswith(m["base"] + "_") and pat.match(x) and pat.match(x)["base"] == m["base"] for x in dag.graph.nodes):
            continue
        out.append(sibs[0])
        if len(out) >= limit:
            break
    return out


def witnesses(ck):
    """Integration witnesses -- concrete runs of the real API, NOT the deciding step: result assembly,
    debug, extra columns and index labels are pandas/dags behaviour that the encoder does not see.
    A witness population is simulated under several configurations and compared per person."""
    import warnings
    import numpy
    import pandas as pd
    from gettsim import compute_taxes_and_transfers
    from _gettsim.config import DEFAULT_TARGETS
    from _gettsim.synthetic import create_synthetic_data
    date = datetime.date(2023, 7, 1)
    P, F = gt.env(date)
    with warnings.catch_warnings():
        warnings.simplefilter("ignore")
        df = create_synthetic_data(n_adults=2, n_children=2, policy_year=2023,
                                   specs_heterogeneous={"bruttolohn_m": [[1800.0, 0.0, 0.0, 0.0], [5200.0, 900.0, 0.0, 0.0]]})
        df = df.reset_index(drop=True)
        n = len(df)
        targets = [t for t in DEFAULT_TARGETS]

        def run(data, tg, **kw):
            return compute_taxes_and_transfers(data, P, F, targets=tg, **kw)
        base = run(df, targets)
        bad = []
        ck.obligations += 1
        runs = 1
        # (a) single targets and a pair
        for tg in (["eink_st_y_sn"], ["kindergeld_m"], ["arbeitsl_geld_2_m_bg", "wohngeld_m_wthh"]):
            out = run(df, tg)
            runs += 1
            if list(out.columns) != sorted(tg, key=list(out.columns).index) or len(out) != n:
                bad.append(f"targets={tg}: columns {list(out.columns)} / {len(out)} rows")
            for t in tg:
                if not numpy.allclose(out[t].to_numpy(dtype=float), base[t].to_numpy(dtype=float), rtol=0, atol=1e-9, equal_nan=True):
                    bad.append(f"value of {t} depends on the requested targets")
        # (b) debug, (c) permuted rows with a non-default, non-contiguous index, (d) unused extra column
        perm = numpy.random.RandomState(common.SEED + 7).permutation(n)
        shuffled = df.iloc[perm].copy()
        shuffled.index = [100 + 7 * int(i) for i in perm]
        extra = df.assign(unbenutzte_spalte_xyz=1.0)
        # losslessly convertible dtype variant (integer columns stored as float64, as after read_csv / a merge)
        as_float = shuffled.copy()
        for c in ("alter", "hh_id", "p_id_elternteil_1"):
            if c in as_float.columns:
                as_float[c] = as_float[c].astype("float64")
        # dict of Series sharing a permuted, sparse index -- alone, and with one more UNUSED Series whose index is
        # different (same labels in another order / default index): only positions may matter
        as_dict = {c: shuffled[c] for c in shuffled.columns}
        as_dict_extra_perm = {**as_dict, "unbenutzte_spalte_xyz": pd.Series(numpy.arange(n, dtype=float), index=sorted(shuffled.index))}
        as_dict_extra_default = {**as_dict, "unbenutzte_spalte_xyz": pd.Series(numpy.arange(n, dtype=float))}
        for label, data, kw, order in (("debug=True", df, {"debug": True}, numpy.arange(n)),
                                       ("dict of Series (permuted rows, sparse index)", as_dict, {}, perm),
                                       ("dict of Series + unused Series with the same labels in sorted order", as_dict_extra_perm, {}, perm),
                                       ("dict of Series + unused Series with a default index", as_dict_extra_default, {}, perm),
                                       ("integer columns stored as float64 + permuted rows + sparse index", as_float, {}, perm),
                                       ("integer columns stored as float64 + permuted rows + sparse index + debug", as_float, {"debug": True}, perm),
                                       ("permuted rows + sparse index", shuffled, {}, perm),
                                       ("permuted rows + sparse index + debug", shuffled, {"debug": True}, perm),
                                       ("unused extra column", extra, {}, numpy.arange(n))):
            try:
                out = run(data, targets, **kw)
            except Exception as e:   # noqa: BLE001
                bad.append(f"{label}: raises {type(e).__name__}: {e}"[:200])
                runs += 1
                continue
            runs += 1
            if len(out) != n:
                bad.append(f"{label}: {len(out)} rows for {n} input rows")
                continue
            for t in targets:
                if not numpy.allclose(out[t].to_numpy(dtype=float), base[t].to_numpy(dtype=float)[order], rtol=0, atol=1e-9, equal_nan=True):
                    bad.append(f"{label}: {t} differs per person from the plain run")
                    break
            if kw.get("debug") and "p_id" in out.columns and [int(x) for x in out["p_id"]] != [int(x) for x in data["p_id"]]:
                bad.append(f"{label}: input columns are not in input order")
        # (e) a person with a missing value (NaN) in a float input: a column must not change when an aggregate
        # of it (or of something computed from it) is requested next to it, and the caller's data stay as they were
        with_nan = df.copy()
        with_nan["bruttolohn_m"] = with_nan["bruttolohn_m"].astype(float)
        with_nan.loc[1, "bruttolohn_m"] = numpy.nan
        for small, more in ((["bruttolohn_y"], ["bruttolohn_y_hh"]), (["bruttolohn_m"], ["bruttolohn_m_hh"]), (["bruttolohn_y"], ["bruttolohn_m_sn", "bruttolohn_y_fg"])):
            given = with_nan.copy()
            try:
                a, b = run(given, small), run(given, small + more)
            except Exception as e:   # noqa: BLE001 -- a loud refusal of missing values is not a dependence on the targets
                ck.extra.setdefault("witness_notes", []).append(f"missing value: {type(e).__name__}"[:80])
                runs += 2
                continue
            runs += 2
            for t in small:
                if not numpy.array_equal(a[t].to_numpy(dtype=float), b[t].to_numpy(dtype=float), equal_nan=True):
                    bad.append(f"missing value in bruttolohn_m: {t} is {a[t].tolist()} for targets {small} but {b[t].tolist()} for targets {small + more}")
            if not given.equals(with_nan):
                bad.append(f"missing value in bruttolohn_m: the caller's data were modified by computing {small + more}")
    ck.extra["integration_witness_runs"] = runs
    if not bad:
        ck.discharged += 1
    else:
        for b in bad[:3]:
            ck.violation(["witness", b.split(":")[0]], f"integration witness (2 households, {date}): {b}", {"witness": True})


def candidates(date):
    d = symdag.Dag(date)
    names = [n for n in d.all_functions if not n.endswith("_params")]
    return d, names


def run(tier):
    ck = common.Check("C04", tier)
    rnd = random.Random(common.SEED)
    dates = [datetime.date(2023, 7, 1)] if tier == "quick" else [datetime.date(2015, 1, 1), datetime.date(2019, 7, 1), datetime.date(2023, 7, 1), datetime.date(2025, 1, 1)]
    jobs = []
    for date in dates:
        d0, names = candidates(date)
        graph_nodes = [n for n in d0.graph.nodes if n in d0.funcs]
        derived = [n for n in names if n not in d0.graph.nodes]
        rnd.shuffle(graph_nodes)
        rnd.shuffle(derived)
        if tier == "quick":
            pick = graph_nodes[:14] + derived[:6]
        else:
            pick = graph_nodes + derived[:120]
        for t in pick:
            other = rnd.choice(names)
            jobs.append((date, t, other, False))
        for t in pick[: (6 if tier == "quick" else 60)]:
            jobs.append((date, t, None, True))
        for t in pick[: (10 if tier == "quick" else 80)]:
            jobs.append((date, t, None, "sibling"))
        for t in pick[: (10 if tier == "quick" else 80)]:
            jobs.append((date, t, None, "override-target"))
    with multiprocessing.get_context("fork").Pool(common.JOBS) as pool:
        results = pool.map(_work, jobs, chunksize=1)
    for job, res in zip(jobs, results):
        date, t, other, minimal = job
        ck.obligations += 1
        ck.queries += res["queries"]
        ck.nontrivial.add((t, minimal))
        cfg = (f"computed ancestor {res.get('extra_columns')} supplied as data: targets [t] vs [t, that column]" if minimal == "override-target" else
               "documented inputs vs the same plus unused columns named like time-unit siblings of rules in the cone: "
               f"{res.get('extra_columns')}" if minimal == "sibling" else
               "only required columns vs all documented inputs" if minimal else f"S={{t}} vs S'=DEFAULT+{{t,{other}}}")
        if len(ck.samples) < 8:
            ck.samples.append({"target": t, "date": str(date), "configurations": cfg, "nodes_compared": res["nodes"], "differences": res["diffs"][:3], "error": res["error"]})
        if res["error"]:
            # a target that cannot be built at all (e.g. rounding spec missing at that date) is not a C04 matter
            ck.discharged += 1
            ck.extra["unbuildable_targets"] = ck.extra.get("unbuildable_targets", 0) + 1
            continue
        if not res["diffs"]:
            ck.discharged += 1
            continue
        for dtext in res["diffs"][:3]:
            ck.violation(["definition-depends-on-configuration", dtext.split(":")[0]], f"target {t} at {date} ({cfg}): {dtext}",
                         {"date": str(date), "t": t, "other": other, "minimal": minimal})
    witnesses(ck)
    ck.bounds = {"configuration_pairs": len(jobs), "dates": [str(d) for d in dates],
                 "outside": "result assembly (_prepare_results), debug=True, check_minimal_specification, row count/order of the returned frame: pandas/dags behaviour, not encodable"}
    ck.assumptions = ["values are functions of node definitions and parent values (dags evaluates the pruned graph in topological order)"]
    ck.rule = "one obligation per configuration pair (target t; S vs S'); nodes of cone(t) compared pairwise; identical code objects are equal by reflexivity, otherwise z3 decides"
    ck.explanation = ("Graphs built by the real loader for pairs of target sets / data-column sets; every node in the cone of the common target must have the same definition "
                      "(z3 equality of the symbolically executed callables where they are not the same objects) and the cone must be the same node set.")
    return ck.finish()


def replay(path):
    d = json.load(open(path))["replay"]
    if d.get("witness"):
        ck = common.Check("C04", "quick")
        witnesses(ck)
        return 1 if ck.violations else 0
    res = _work((datetime.date.fromisoformat(d["date"]), d["t"], d["other"], d["minimal"]))
    print(res)
    return 1 if res["diffs"] else 0
