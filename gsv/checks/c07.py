"""C07 -- the policy environment for a date is exactly the law in force that day.

Concolic exploration of the real `set_up_policy_environment` (gsv.dateprobe): z3 proves the recorded
regions cover every calendar day of the window.  Per region (jointly refined by the oracle's own
comparisons): the parameters are compared with an independent resolver of the YAML dialect, parsed
piecewise schedules with the exact reference schedule, year-derived values with their formula, and
the active function set with the registered validity intervals.  Overlap rejection at registration
is decided by a z3 query over two symbolic intervals executed through the real function.
"""
from __future__ import annotations

import datetime
import json
import math

import numpy
import z3

from gsv import common, dateprobe
from gsv import rulesym as R
from gsv.reference import resolver as ref

_RS = None


def rs():
    global _RS
    if _RS is None:
        from _gettsim.config import RESOURCE_DIR
        _RS = ref.Resolver(RESOURCE_DIR / "parameters")
    return _RS


def same(a, b, path, out, tol=0.0):
    """deep comparison real (a) vs reference (b)"""
    if isinstance(b, dict):
        if not isinstance(a, dict):
            out.append(f"{path}: loader has {type(a).__name__}, reference a mapping")
            return
        ka = {k for k in a if k not in ("type", "progressionsfaktor")}
        kb = {k for k in b if k not in ("type", "progressionsfaktor")}
        if ka != kb:
            out.append(f"{path}: keys differ: only loader {sorted(map(str, ka - kb))[:5]}, only reference {sorted(map(str, kb - ka))[:5]}")
        for k in ka & kb:
            same(a[k], b[k], f"{path}.{k}", out, tol)
        return
    if isinstance(a, dict):
        out.append(f"{path}: loader has a mapping, reference {b!r}")
        return
    if isinstance(a, (list, tuple)) or isinstance(b, (list, tuple)):
        if list(a) != list(b):
            out.append(f"{path}: {a!r} != {b!r}")
        return
    try:
        fa, fb = float(a), float(b)
        if fa != fb and not (abs(fa - fb) <= tol * max(1.0, abs(fb))):
            out.append(f"{path}: loader {a!r} != reference {b!r}")
    except (TypeError, ValueError):
        if a != b:
            out.append(f"{path}: loader {a!r} != reference {b!r}")


def compare_piecewise(real, refval, path, out):
    try:
        s = ref.Schedule(refval, path)
    except ref.RefError as e:
        out.append(f"{path}: reference cannot build the schedule: {e}")
        return
    if not (isinstance(real, dict) and {"thresholds", "rates", "intercepts_at_lower_thresholds"} <= set(real)):
        out.append(f"{path}: loader value is not a parsed piecewise schedule")
        return
    th = [float(x) for x in real["thresholds"]]
    want = [float(x) for x in s.thresholds()]
    if len(th) != len(want) or any(not ref.close(a, b) for a, b in zip(th, want)):
        out.append(f"{path}: thresholds {th} != {want}")
        return
    rates = numpy.asarray(real["rates"], dtype=float)
    if rates.shape != (s.deg, s.n):
        out.append(f"{path}: rates shape {rates.shape} != {(s.deg, s.n)}")
        return
    for p in range(s.deg):
        for k in range(s.n):
            if not ref.close(float(rates[p, k]), float(s.rates[p][k]), 1e-9):
                out.append(f"{path}: rate[{p},{k}] {rates[p, k]} != {float(s.rates[p][k])}")
    ic = [float(x) for x in real["intercepts_at_lower_thresholds"]]
    for k in range(s.n):
        if not ref.close(ic[k], float(s.icpt[k]), 1e-9):
            out.append(f"{path}: intercept[{k}] {ic[k]} != {float(s.icpt[k])}")


def oracle(date, P, F, err):
    """runs inside the probe worker under the recording date"""
    from _gettsim.config import INTERNAL_PARAMS_GROUPS
    from _gettsim.functions_loader import load_internal_functions
    out = []
    R_ = rs()
    le = lambda a, b: a <= b     # noqa: E731  (b is the recording date)
    year = date.year
    if P is None:
        return [f"loader raises: {err}"]
    for g in INTERNAL_PARAMS_GROUPS:
        try:
            want = R_.group(g, date, le)
            wround = R_.rounding(g, date, le)
        except ref.RefError as e:
            out.append(f"{g}: reference error {e}")
            continue
        real = P[g]
        derived = set()
        if g == "kinderzuschl" and 2021 <= year < 2023:
            derived.add("maximum")
        if g == "eink_st_abzuege" and year >= 2005:
            derived |= {"einführungsfaktor_vorsorgeaufw_alter_ab_2005", "vorsorgepauschale_rentenv_anteil"}
        rk = {k for k in real if k not in ("datum", "rounding")} - derived
        wk = set(want) - derived
        if rk != wk:
            out.append(f"{g}: parameter sets differ: only loader {sorted(rk - wk)[:6]}, only reference {sorted(wk - rk)[:6]}")
        for k in rk & wk:
            w = want[k]
            if isinstance(w, dict) and str(w.get("type", "")).startswith("piecewise"):
                compare_piecewise(real[k], w, f"{g}.{k}", out)
            else:
                same(real[k], w, f"{g}.{k}", out)
        if ("rounding" in real) != ("rounding" in R_.raw(g)):
            out.append(f"{g}: rounding section presence differs")
        if "rounding" in real:
            same(real["rounding"], wround, f"{g}.rounding", out)
        # date stamp
        if str(real.get("datum")) != f"{date.year:04d}-{D_month(date):02d}-{D_day(date):02d}":
            out.append(f"{g}.datum = {real.get('datum')} for {date.isoformat()}")
        # year-derived values against their documented formula
        if g == "kinderzuschl" and "maximum" in derived:
            try:
                ex = want["existenzminimum"]
                kg = R_.group("kindergeld", date, le)["kindergeld"][1]
                w = (ex["regelsatz"]["kinder"] + ex["kosten_der_unterkunft"]["kinder"] + ex["heizkosten"]["kinder"]) / 12 - kg
                same(real.get("maximum"), w, f"{g}.maximum(derived)", out, 1e-12)
            except Exception as e:   # noqa: BLE001
                out.append(f"{g}.maximum: reference formula failed {e!r}")
        if g == "eink_st_abzuege" and year >= 2005:
            for k, src in (("einführungsfaktor_vorsorgeaufw_alter_ab_2005", "einführungsfaktor"),
                           ("vorsorgepauschale_rentenv_anteil", "vorsorgepauschale_rentenv_anteil")):
                try:
                    s = ref.Schedule(want[src], src)
                    same(real.get(k), float(s.eval_exact(year)), f"{g}.{k}(derived from the year)", out, 1e-9)
                except Exception as e:   # noqa: BLE001
                    out.append(f"{g}.{k}: reference formula failed {e!r}")
    # function selection: exactly the one registered implementation whose interval contains the date
    expected = {}
    clashes = []
    for f in load_internal_functions().values():
        info = getattr(f, "__info__", None)
        if info is not None and "name_in_dag" in info:
            if not (info["start_date"] <= date and date <= info["end_date"]):
                continue
            name = info["name_in_dag"]
        else:
            name = f.__name__
        if name in expected and expected[name] is not f:
            clashes.append(name)
        expected[name] = f
    if clashes:
        out.append(f"several implementations active for {sorted(set(clashes))[:5]}")
    if set(expected) != set(F):
        out.append(f"active columns differ: only loader {sorted(set(F) - set(expected))[:5]}, only expected {sorted(set(expected) - set(F))[:5]}")
    for n in set(expected) & set(F):
        if F[n] is not expected[n] and F[n].__code__ is not expected[n].__code__:
            out.append(f"column {n}: loader selected {F[n].__name__}, interval says {expected[n].__name__}")
    return out


def D_month(d):
    return datetime.date.month.__get__(d)


def D_day(d):
    return datetime.date.day.__get__(d)


def overlap_lemma(ck):
    """forall intervals: overlapping <=> rejected, through the real registration check"""
    from _gettsim import shared

    class Fake:
        pass
    s1, e1, s2, e2 = (R.Sym(z3.Int(n), int) for n in ("s1", "e1", "s2", "e2"))
    other = Fake()
    other.__name__ = "other_function"
    other.__info__ = {"start_date": s2, "end_date": e2}
    ctx = R.Ctx()
    ctx.global_overrides["TIME_DEPENDENT_FUNCTIONS"] = {"key": [other]}
    v, ctx = R.run(shared._check_for_conflicts_in_time_dependent_functions,
                   kwargs={"dag_key": "key", "function_name": "new_function", "start": s1, "end": e1}, ctx=ctx)
    ck.functions |= ctx.funcs
    raises = R.zbool(R.zor(*[g for g, k, w in ctx.errors]))
    pre = [s1.t <= e1.t, s2.t <= e2.t]
    overlap = z3.And(s1.t <= e2.t, s2.t <= e1.t)
    r, _ = ck.solve(pre + [raises])
    if r != "sat":
        raise common.HarnessError("overlap lemma: the rejection path is unreachable in the encoding (vacuity twin)")
    for lab, cons in (("overlap=>rejected", [overlap, z3.Not(raises)]), ("rejected=>overlap", [z3.Not(overlap), raises])):
        r, m = ck.oblige(f"registration {lab}", pre + cons, 30, sample={"claim": lab, "intervals": "two symbolic inclusive date intervals (ordinals)"})
        ck.nontrivial.add(("overlap", lab))
        if r == "sat":
            vals = {k: m.eval(x.t, model_completion=True).as_long() for k, x in (("s1", s1), ("e1", e1), ("s2", s2), ("e2", e2))}
            rep = replay_overlap(vals)
            if rep["fails"]:
                ck.violation(["overlap-lemma", lab], f"registration check: {lab} fails for intervals {vals}", {"kind": "overlap", "vals": vals})
            else:
                common.spurious("C07", f"overlap lemma {lab} {vals}")


def replay_overlap(vals):
    from _gettsim import shared
    base = datetime.date(2000, 1, 1).toordinal()
    d = {k: datetime.date.fromordinal(base + (v % 3000)) for k, v in vals.items()}
    # keep the order relations of the model
    ks = sorted(vals, key=lambda k: vals[k])
    rank = {}
    r = 0
    prev = None
    for k in ks:
        if prev is not None and vals[k] != prev:
            r += 1
        rank[k] = r
        prev = vals[k]
    d = {k: datetime.date.fromordinal(base + rank[k]) for k in vals}
    key = "__gsv_overlap_probe__"

    def other():
        pass
    other.__info__ = {"start_date": d["s2"], "end_date": d["e2"]}
    shared.TIME_DEPENDENT_FUNCTIONS[key] = [other]
    try:
        shared._check_for_conflicts_in_time_dependent_functions(key, "new_function", d["s1"], d["e1"])
        rejected = False
    except shared.ConflictingTimeDependentFunctionsError:
        rejected = True
    finally:
        del shared.TIME_DEPENDENT_FUNCTIONS[key]
    overlap = d["s1"] <= d["e2"] and d["s2"] <= d["e1"]
    return {"rejected": rejected, "overlap": overlap, "fails": rejected != overlap}


def string_dates(ck):
    """The public entry point also accepts the date as a string.  pandas' parser is not encodable; concrete supplement,
    NOT a solver verdict: every calendar day of a leap and a non-leap year written in ISO form (YYYY-MM-DD) must parse to
    that day (all day/month combinations, in particular days <= 12 that could be read as months)."""
    from _gettsim.policy_environment import _parse_date
    ck.obligations += 1
    bad = []
    n = 0
    for year in (2023, 2024):
        d = datetime.date(year, 1, 1)
        while d.year == year:
            n += 1
            try:
                got = _parse_date(d.isoformat())
            except Exception as e:   # noqa: BLE001
                got = f"raises {type(e).__name__}"
            if got != d:
                bad.append((d.isoformat(), str(got)))
            d += datetime.timedelta(days=1)
    ck.extra["iso_date_strings_parsed"] = n
    if not bad:
        ck.discharged += 1
    else:
        ck.violation(["parse-date", "iso-string"], f"_parse_date reads {len(bad)} of {n} ISO date strings as another day, e.g. {bad[:3]}: the environment for a date given as "
                     "string is not the law of that day", {"kind": "parse", "iso": bad[0][0]})


def run(tier):
    ck = common.Check("C07", tier)
    last = max(dateprobe.yaml_seed_dates())
    lo = datetime.date(2000, 1, 1) if tier == "quick" else datetime.date(1980, 1, 1)
    hi = last.replace(year=last.year + 1)
    dateprobe.ORACLE = oracle
    known_items = {k["key"][1] for k in ck.known if k["key"][0] == "resolution"}

    def fail_fast(r):
        # a disagreement that is not a listed finding decides the run: stop exploring
        return any(d.split(":")[0] not in known_items for d in (r.extra or []))

    regions, st = dateprobe.explore(lo, hi, jobs=common.JOBS, check_endpoints=True, on_region=fail_fast)
    ck.queries += st["coverage_queries"]
    # coverage: the solver verdict over every calendar day of the window
    ck.obligations += 1
    if st.get("coverage_verdict") == "unsat":
        ck.discharged += 1
    else:
        ck.inconclusive.append("coverage query")
    # constancy: by construction of the region + end-point replays on plain dates
    ck.obligations += 1
    if not st["leaks"]:
        ck.discharged += 1
    else:
        for day, reg in st["leaks"][:5]:
            ck.violation(["not-constant", day], f"environment at {day} differs from the one observed for its region {reg}", {"kind": "leak", "day": day})
    seen = set()
    for r in regions:
        ck.obligations += 1
        dis = r.extra or []
        ck.nontrivial.add(r.fp)
        if not dis:
            ck.discharged += 1
            continue
        fresh = []
        for d in dis:
            key = ["resolution", d.split(":")[0]]
            what = f"{d}  [region {r.first}..{r.last}]"
            if (tuple(key)) in seen:
                continue
            seen.add(tuple(key))
            if ck.violation(key, what, {"kind": "resolution", "date": str(r.rep), "item": d.split(":")[0]}):
                fresh.append(d)
        if not fresh:
            ck.discharged += 1
    for r in regions[:6]:
        ck.samples.append({"region": f"{r.first}..{r.last}", "representative": str(r.rep), "recorded_date_operations": r.nops,
                           "environment_fingerprint": (r.fp or "")[:12], "oracle_disagreements": len(r.extra or [])})
    string_dates(ck)
    overlap_lemma(ck)
    ck.extra["regions"] = len(regions)
    ck.extra["distinct_environments"] = len({r.fp for r in regions})
    ck.extra["date_exploration"] = {k: v for k, v in st.items() if k != "leaks"}
    ck.bounds = {"window": f"{lo} .. {hi} (every calendar day; quick starts at 2000-01-01)", "regions": len(regions)}
    ck.assumptions = ["the date influences the loader only through comparisons, .year/.month/.day and .replace of the date object (all recorded); "
                      "reads made while building the exempt date stamp 'datum' are not recorded",
                      "reference resolver follows the property statement and the YAML dialect in the files (gsv/reference/resolver.py)"]
    ck.stubs = ["datetime.date subclass recording comparisons (concolic); no repository code is modified"]
    ck.rule = "one obligation per date region (environment == reference, function set == registered intervals) + coverage + constancy + overlap lemma; distinct by environment fingerprint"
    ck.explanation = ("Real set_up_policy_environment run under a recording date; z3 proves that the regions found cover every day of the window; "
                      "on each region the environment equals an independent resolution of the raw YAML and the function set equals the registered validity intervals.")
    return ck.finish()


def replay(path):
    d = json.load(open(path))["replay"]
    if d["kind"] == "parse":
        from _gettsim.policy_environment import _parse_date
        got = _parse_date(d["iso"])
        print(d["iso"], "->", got)
        return 1 if got != datetime.date.fromisoformat(d["iso"]) else 0
    if d["kind"] == "overlap":
        rep = replay_overlap(d["vals"])
        print(rep)
        return 1 if rep["fails"] else 0
    if d["kind"] == "resolution":
        import _gettsim.policy_environment as PE
        date = datetime.date.fromisoformat(d["date"])
        P, F = PE.set_up_policy_environment(date)
        dis = [x for x in oracle(date, P, F, None) if x.split(":")[0] == d["item"]]
        print("\n".join(dis) or "no disagreement")
        return 1 if dis else 0
    print("re-run the check")
    return 0
