"""C19 -- social-insurance contributions follow the statutory shape in the wage.

SymDAG slice from bruttolohn_m to the four employee contribution nodes (plus employer and
transition-zone nodes), built by the real loader per date class, rounding on.  Two copies that
differ only in the wage; z3 (linear real arithmetic) must refute each negated shape claim.
"""
from __future__ import annotations

import datetime
import json

import z3

from gsv import common, gt, symdag
from gsv import rulesym as R

EPS = z3.RealVal("1/1000000")
ROBUST = z3.RealVal("1/10000")
BRANCHES = {
    "ges_rentenv": "_ges_rentenv_beitr_bemess_grenze_m",
    "arbeitsl_v": "_ges_rentenv_beitr_bemess_grenze_m",
    "ges_krankenv": "_ges_krankenv_beitr_bemess_grenze_m",
    "ges_pflegev": "_ges_krankenv_beitr_bemess_grenze_m",
}
WAGE = "bruttolohn_m"
MODEL_VALS = None


def date_classes(tier):
    if tier == "quick":
        ds = set(gt.QUICK_DATES + [datetime.date(2022, 1, 1), datetime.date(2025, 1, 1)])
        # both sides of every date at which a contribution rule of the current tree starts or ends (>= 2015)
        one = datetime.timedelta(days=1)
        for f in gt.all_internal_functions().values():
            if "social_insurance_contributions" not in (getattr(f, "__module__", "") or ""):
                continue
            info = getattr(f, "__info__", {}) or {}
            for b in (info.get("start_date"), (info["end_date"] + one) if info.get("end_date") and info["end_date"].year < 2090 else None):
                if b and datetime.date(2015, 1, 1) < b <= datetime.date(2030, 1, 1):
                    ds |= {b, b - one}
        return [(d, d) for d in sorted(ds)], None
    from gsv import dateprobe
    regs, st = dateprobe.explore(datetime.date(2015, 1, 1), last_entry_date(), check_endpoints=False)
    return [(r.first, r.rep) for r in regs], st


def last_entry_date():
    from gsv import dateprobe
    return max(dateprobe.yaml_seed_dates())


def valid_inputs(syms):
    """V restricted to the slice (documented ranges) + the C19 quantifier: a dependent employee"""
    from gsv import validity
    cs = validity.inputs(syms, single_person=True)
    for n, s in syms.items():
        if n in ("selbstständig", "rentner"):
            cs.append(z3.Not(s.t))      # dependent employee without self-employment / pension status
        if n in ("eink_selbst_m", "priv_rente_m"):
            cs.append(s.t == 0)
    return cs


def slice_for(dag, targets):
    """frontier: documented inputs and cross-row nodes (aggregations, groupings) only"""
    return dag.cone(targets)


def run_date(ck, date, seen_fp):
    targets = []
    for b in BRANCHES:
        targets += [f"{b}_beitr_arbeitnehmer_m", f"{b}_beitr_arbeitgeber_m",
                    f"_{b}_beitr_midijob_arbeitnehmer_m", f"_{b}_beitr_midijob_arbeitgeber_m",
                    f"_{b}_beitr_midijob_sum_arbeitnehmer_arbeitgeber_m"]
    targets += ["geringfügig_beschäftigt", "in_gleitzone", *set(BRANCHES.values())]
    dag = symdag.Dag(date, targets=targets)
    order, fr = slice_for(dag, targets)
    # fingerprint of the slice: rule sources + partialled parameter values read (via folded terms)
    copies = []
    ctxs = []
    for tag in ("#1", "#2"):
        ctx = R.Ctx()
        frontier = {}
        for n in fr:
            frontier[n] = dag.free_symbol(n, tag if n == WAGE else "")
        cache = {}
        vals = {}
        for t in targets:
            vals[t] = dag.eval_scalar(t, frontier, cache, ctx)
        copies.append((frontier, vals, cache))
        ctxs.append(ctx)
        ck.functions |= ctx.funcs
    (f1, v1, c1), (f2, v2, c2) = copies
    global MODEL_VALS
    MODEL_VALS = (v1, v2)
    fp = hash(tuple(str(R.term_of(v1[t])) for t in targets if v1[t] is not None))
    if fp in seen_fp:
        return "dup"
    seen_fp.add(fp)
    w1, w2 = f1[WAGE].t, f2[WAGE].t
    pre = valid_inputs(f1) + [w2 >= 0] + [a for c in ctxs for a in c.assumptions]
    T = lambda v: R.term_of(v, float)
    B = lambda v: R.truth(v)
    # vacuity twin: preconditions satisfiable with a positive contribution
    r, _ = ck.solve(pre + [T(v1["ges_rentenv_beitr_arbeitnehmer_m"]) > 0])
    if r != "sat":
        raise common.HarnessError(f"C19 vacuity twin failed at {date}")
    # paths on which a rule of the slice raises are C08's subject (complete, computable system);
    # here they are excluded from the shape claims
    errs = [g for c in ctxs for g, k, w in c.errors]
    if errs:
        pre = pre + [z3.Not(z3.Or(errs))]
        ck.extra["error_guards_excluded"] = ck.extra.get("error_guards_excluded", 0) + len(errs)
    for b, ceil_node in BRANCHES.items():
        emp = f"{b}_beitr_arbeitnehmer_m"
        e1, e2 = T(v1[emp]), T(v2[emp])
        ceil = T(v1[ceil_node])
        def obs_for(EPS):
          return [
            ("nonneg", [e1 < -EPS]),
            ("monotone", [w1 <= w2, e1 > e2 + EPS]),
            ("zero_if_marginal", [B(v1["geringfügig_beschäftigt"]), z3.Or(e1 > EPS, e1 < -EPS)]),
            ("const_above_ceiling", [w1 >= ceil, w2 >= ceil, z3.Or(e1 - e2 > EPS, e2 - e1 > EPS)]),
            ("meets_regular_at_upper_zone_boundary(lipschitz-1 across the boundary)",
             [w1 <= w2, B(v1["in_gleitzone"]), z3.Not(B(v2["in_gleitzone"])), z3.Not(B(v2["geringfügig_beschäftigt"])),
              z3.Or(e2 - e1 > (w2 - w1) + EPS, e1 - e2 > EPS)]),
            ("employee+employer=total_in_zone",
             [B(v1["in_gleitzone"]),
              z3.Or(T(v1[f"_{b}_beitr_midijob_arbeitnehmer_m"]) + T(v1[f"_{b}_beitr_midijob_arbeitgeber_m"])
                    - T(v1[f"_{b}_beitr_midijob_sum_arbeitnehmer_arbeitgeber_m"]) > EPS,
                    T(v1[f"_{b}_beitr_midijob_sum_arbeitnehmer_arbeitgeber_m"]) - T(v1[f"_{b}_beitr_midijob_arbeitnehmer_m"])
                    - T(v1[f"_{b}_beitr_midijob_arbeitgeber_m"]) > EPS)]),
          ]
        robust = dict(obs_for(ROBUST))
        for label, cons in obs_for(EPS):
            r, m = ck.oblige(f"{label} {b}@{date}", pre + cons, 120,
                             sample={"date": str(date), "branch": b, "claim": label, "nodes_in_slice": len(order),
                                     "frontier": sorted(fr)[:12]})
            ck.nontrivial.add((label, b, fp))
            if r == "sat":
                # ask for a witness with a margin that survives float evaluation before replaying
                r2, m2 = ck.solve(pre + robust[label], 120)
                if r2 == "sat":
                    report(ck, dag, date, label, b, m2, f1, f2, emp)
                else:
                    ck.inconclusive.append(f"{label} {b}@{date}: exceeds eps=1e-6 only by less than 1e-4 (not replayable in floats)")
    return "ok"


def report(ck, dag, date, label, b, m, f1, f2, emp):
    """replay a model on the real API: frontier nodes supplied as data columns"""
    rows = []
    for fr in (f1, f2):
        rows.append({n: R.model_value(m, s) for n, s in fr.items()})
    res = replay_rows(date, rows, emp, label, b)
    key = [label.split("(")[0], b, str(date)]
    what = f"{b} {label} fails at {date}: wages {rows[0][WAGE]!r}/{rows[1][WAGE]!r} -> {res['values']}"
    if emp and not res["fails"]:
        what += f" model: {emp}=" + str([m.eval(R.term_of(v[emp], float), model_completion=True) for v in MODEL_VALS])
    if res["fails"]:
        ck.violation(key, what, {"date": str(date), "rows": rows, "label": label, "branch": b, "target": emp})
    else:
        common.spurious("C19", what + f" (real API: {res})")


def replay_rows(date, rows, emp, label, b):
    """run the real compute_taxes_and_transfers on two single-person datasets"""
    import pandas as pd
    from gettsim import compute_taxes_and_transfers
    P, F = gt.env(date)
    outs = []
    want = [emp] if emp else [f"{x}_beitr_arbeitnehmer_m" for x in BRANCHES]
    extra = ["geringfügig_beschäftigt", "in_gleitzone", BRANCHES.get(b, "_ges_rentenv_beitr_bemess_grenze_m")]
    if b in BRANCHES:
        extra += [f"_{b}_beitr_midijob_arbeitnehmer_m", f"_{b}_beitr_midijob_arbeitgeber_m",
                  f"_{b}_beitr_midijob_sum_arbeitnehmer_arbeitgeber_m"]
    for row in rows:
        data = {"p_id": [0], "hh_id": [0]}
        for k, v in row.items():
            data[k] = [v]
        df = pd.DataFrame(data)
        try:
            tg = [c for c in want + extra if c not in data]
            out = compute_taxes_and_transfers(df, P, F, targets=tg)
            outs.append({c: gt.py(out[c].iloc[0]) if c in tg else data[c][0] for c in want + extra})
        except Exception as e:
            outs.append({"raises": f"{type(e).__name__}: {e}"[:200]})
    return {"values": outs, "fails": shape_fails(label, rows, outs, emp, b)}


def shape_fails(label, rows, outs, emp, b):
    if any("raises" in o for o in outs):
        return label == "raises"
    e = 5e-7
    a, c = outs
    w1, w2 = rows[0][WAGE], rows[1][WAGE]
    if label.startswith("nonneg"):
        return a[emp] < -e
    if label.startswith("monotone"):
        return w1 <= w2 and a[emp] > c[emp] + e
    if label.startswith("zero_if"):
        return bool(a["geringfügig_beschäftigt"]) and abs(a[emp]) > e
    if label.startswith("const_above"):
        cl = a[BRANCHES[b]]
        return w1 >= cl and w2 >= cl and abs(a[emp] - c[emp]) > e
    if label.startswith("meets"):
        return (w1 <= w2 and bool(a["in_gleitzone"]) and not bool(c["in_gleitzone"]) and not bool(c["geringfügig_beschäftigt"])
                and (c[emp] - a[emp] > (w2 - w1) + e or a[emp] - c[emp] > e))
    if label.startswith("employee+employer"):
        return bool(a["in_gleitzone"]) and abs(a[f"_{b}_beitr_midijob_arbeitnehmer_m"] + a[f"_{b}_beitr_midijob_arbeitgeber_m"]
                                                - a[f"_{b}_beitr_midijob_sum_arbeitnehmer_arbeitgeber_m"]) > e
    return False


def _chunk(ck, dates):
    seen = set()
    k = 0
    for d in dates:
        k += run_date(ck, d, seen) == "ok"
    ck.extra["distinct_slices"] = ck.extra.get("distinct_slices", 0) + k


def run(tier):
    ck = common.Check("C19", tier)
    classes, st = date_classes(tier)
    reps = [rep for first, rep in classes]
    chunks = [reps[i::common.JOBS] for i in range(common.JOBS) if reps[i::common.JOBS]] if len(reps) > 1 else [reps]
    if len(chunks) == 1:
        _chunk(ck, chunks[0])
    else:
        common.run_parallel(ck, _chunk, chunks)
    n_ok = ck.extra.get("distinct_slices", 0)
    ck.bounds = {"date_classes": len(classes), "distinct_slices": n_ok, "persons": 1,
                 "wage": "all non-negative reals (two copies)", "eps": "1e-6",
                 "window": "quick: 8 fixed dates >= 2015 and both sides of every start/end date of a contribution rule; thorough: every date region >= 2015-01-01 (concolic exploration, z3 coverage)"}
    if st:
        ck.extra["date_exploration"] = {k: v for k, v in st.items() if k != "leaks"}
    ck.assumptions = ["inputs within documented ranges (money >= 0, alter 0..100, children 0..10)",
                      "data-dependent nodes that do not depend on the wage are free symbols of their declared type (over-approximation)",
                      "floats as exact reals; claims modulo eps=1e-6"]
    ck.stubs = ["numpy.vectorize -> element-wise application of the python rule", "numpy.ceil/floor/round in the rounding wrapper -> exact integer arithmetic"]
    ck.rule = "one obligation per (date class slice, branch, claim); slices with identical symbolic terms are solved once"
    ck.explanation = ("Real contribution rules composed symbolically from bruttolohn_m (rounding wrapper on, parameter-only nodes folded through the "
                      "real wrapper); two copies differing only in the wage; z3 refutes each negated shape claim for all wages and all other inputs.")
    return ck.finish()


def replay(path):
    d = json.load(open(path))["replay"]
    res = replay_rows(datetime.date.fromisoformat(d["date"]), d["rows"], d["target"], d["label"], d["branch"])
    print(json.dumps(res, indent=1, default=str))
    return 1 if res["fails"] else 0
