"""C05 -- supplying a computed column as data is equivalent to computing it (decidable part).

For node n (seeded sample quick / every node of the default graph thorough) the real loader is run
with n among the data columns.  Obligations: n is then a root of the graph (the supplied column is used
in place of its computation -- never silently ignored); every other common node keeps its definition
(same objects, or z3-equal for all parent values); where provenance legitimately changes (time-unit
siblings now derived from the supplied column) z3 proves the new definition equal to the old one under
the hypothesis n = def(n)(parents).  The overlap warning is raised by the real API on a witness call.
Type side: the annotation-driven conversion of the supplied column is the identity iff the computed
type equals the declared type (C03).
"""
from __future__ import annotations

import datetime
import json
import multiprocessing
import random
import warnings

import z3

from gsv import common, defeq, gt, symdag
from gsv import rulesym as R


def _work(args):
    warnings.filterwarnings("ignore")
    date, n = args
    from _gettsim.config import TYPES_INPUT_VARIABLES
    ck = common.Check.__new__(common.Check)
    ck.queries, ck.solver_time = 0, 0.0
    ck.solve = lambda cons, timeout_s=60: common.Check.solve(ck, cons, timeout_s)
    out = {"n": n, "diffs": [], "nodes": 0, "queries": 0, "error": None, "hyp": 0}
    try:
        from _gettsim.config import DEFAULT_TARGETS
        base = symdag.Dag(date)
        # a supplied column that is itself requested as a target makes the real API fail loudly
        # (MissingFunctionsError); the claim is about every *other* result
        over = symdag.Dag(date, targets=[t for t in DEFAULT_TARGETS if t != n], data_cols=list(TYPES_INPUT_VARIABLES) + [n])
        if n in over.funcs:
            out["diffs"].append(f"{n}: supplied as data but still computed (the column would be ignored)")
        if n not in over.overridden and base.kind(n) != "timeconv":
            # (derived time-unit siblings are simply not created for names present in the data)
            out["diffs"].append(f"{n}: overrides a rule but is not registered as overriding column (no warning)")
        if n not in over.graph.nodes and n not in DEFAULT_TARGETS:
            out["diffs"].append(f"{n}: supplied column is not used by the graph although the computed graph uses the node")
        for k in sorted(set(over.graph.nodes)):
            if k == n or k.endswith("_params") or k not in over.funcs:
                continue
            if k not in base.funcs:
                # a node that only exists with the override (e.g. a sibling derived from the data column)
                continue
            d = defeq.compare_node(ck, n, base, over, k)
            out["nodes"] += 1
            if not d:
                continue
            # provenance changed: prove equality under the hypothesis n = def(n)(parents)
            h = hypothesis_equal(ck, base, over, n, k)
            out["hyp"] += 1
            if h:
                out["diffs"].append(f"{d}; under n = def(n): {h}")
        out["queries"] = ck.queries
    except Exception as e:   # noqa: BLE001
        out["error"] = f"{type(e).__name__}: {e}"[:200]
    return out


def hypothesis_equal(ck, base, over, n, k):
    """def_over(k)(..., n, ...) == def_base(k)(...) where n is replaced by its definition in base"""
    try:
        # evaluate k in both graphs from a common frontier: the parents of n and of k in the base graph
        stop = set()
        order, fr = base.cone([k, n])
        frontier = {x: base.free_symbol(x) for x in fr}
        ctx = R.Ctx()
        cache = {}
        vb = base.eval_scalar(k, frontier, cache, ctx)
        vn = base.eval_scalar(n, frontier, cache, ctx)
        f2 = dict(frontier)
        f2[n] = vn
        order2, fr2 = over.cone([k], stop=lambda x: x == n)
        for x in fr2:
            if x not in f2:
                f2[x] = over.free_symbol(x)
        vo = over.eval_scalar(k, f2, {}, ctx)
        ta, tb = R.term_of(vb, float), R.term_of(vo, float)
        tol = z3.RealVal("1/1000000000") * z3.If(ta >= 0, ta, -ta) + z3.RealVal("1/1000000000000")
        r, m = ck.solve([z3.Or(ta - tb > tol, tb - ta > tol)], 60)
        return None if r == "unsat" else f"values differ ({r})"
    except (R.Unsupported, R.PathEnd) as e:
        return f"not encodable ({e})"


def warning_witness(ck):
    """the real API announces an overriding column by FunctionsAndColumnsOverlapWarning"""
    import pandas as pd
    from gettsim import compute_taxes_and_transfers
    from _gettsim.interface import FunctionsAndColumnsOverlapWarning
    P, F = gt.env(datetime.date(2023, 7, 1))
    df = pd.DataFrame({"p_id": [0], "hh_id": [0], "bruttolohn_m": [2000.0], "wohnort_ost": [False], "minijob_grenze": [520.0]})
    ck.obligations += 1
    with warnings.catch_warnings(record=True) as w:
        warnings.simplefilter("always")
        out = compute_taxes_and_transfers(df, P, F, targets=["geringfügig_beschäftigt"])
    if any(issubclass(x.category, FunctionsAndColumnsOverlapWarning) for x in w):
        ck.discharged += 1
    else:
        ck.violation(["no-overlap-warning"], "supplying a column that overrides a rule raises no FunctionsAndColumnsOverlapWarning", {"kind": "warn"})


def witness_population(date):
    """household 0: couple with two children; households 1 and 2: a married couple living apart (partners in
    different households -- the derived family / needs unit then spans households)"""
    import pandas as pd
    from _gettsim.synthetic import create_synthetic_data
    a = create_synthetic_data(n_adults=2, n_children=2, policy_year=date.year,
                              specs_heterogeneous={"bruttolohn_m": [[2100.37, 450.55, 0.0, 0.0]]}).reset_index(drop=True)
    b = create_synthetic_data(n_adults=2, n_children=0, policy_year=date.year,
                              specs_heterogeneous={"bruttolohn_m": [[1500.1, 0.0]]}).reset_index(drop=True)
    off = int(a["p_id"].max()) + 1
    for c in b.columns:
        if c == "p_id" or c.startswith("p_id_"):
            b[c] = [v + off if v >= 0 else v for v in b[c]]
    b["hh_id"] = [int(a["hh_id"].max()) + 1, int(a["hh_id"].max()) + 2]
    out = pd.concat([a, b], ignore_index=True)
    # further flow inputs with cents (their other time units are computed columns that can be supplied)
    for c, vals in (("eink_selbst_m", [109.6, 0.0, 0.0, 0.0, 184.95, 0.0]), ("eink_vermietung_m", [0.0, 110.97, 0.0, 0.0, 0.0, 127.41]),
                    ("kapitaleink_brutto_m", [112.34, 0.0, 0.0, 0.0, 0.0, 186.32])):   # x * 12 / 12 != x in binary floating point
        if c in out.columns and len(out) == len(vals):
            out[c] = vals
    return out


def _roundtrip(args):
    """concrete witness: compute node n, supply it back (as DataFrame column and inside a dict of Series
    whose index is not the default one), compare every other default target"""
    warnings.filterwarnings("ignore")
    date, n = args
    import numpy
    import pandas as pd
    from gettsim import compute_taxes_and_transfers
    from _gettsim.config import DEFAULT_TARGETS
    from _gettsim.synthetic import create_synthetic_data
    P, F = gt.env(date)
    df = witness_population(date)
    # every computed node of the default graph is observed, not only the default targets
    d0 = symdag.Dag(date)
    targets = sorted(t for t in d0.graph.nodes if t in d0.funcs and t != n and t not in df.columns)
    if n in df.columns:
        return n, [], "already a data column of the witness"
    bad = []
    try:
        base = compute_taxes_and_transfers(df, P, F, targets=targets + [n])
    except Exception as e:   # noqa: BLE001
        return n, [], f"base run raises {type(e).__name__}"
    col = base[n]

    def differs(out):
        for t in targets:
            a, b = out[t].to_numpy(), base[t].to_numpy()
            try:
                same = numpy.allclose(a.astype(float), b.astype(float), rtol=0, atol=1e-9, equal_nan=True)
            except (TypeError, ValueError):
                same = list(a) == list(b)
            if not same:
                return t
        return None
    # (a) DataFrame input, column attached by position
    d2 = df.copy()
    d2[n] = col.values
    try:
        t = differs(compute_taxes_and_transfers(d2, P, F, targets=targets))
        if t:
            bad.append(f"DataFrame input: supplying {n} = its computed values changes {t}")
    except Exception as e:   # noqa: BLE001
        bad.append(f"DataFrame input: supplying {n} raises {type(e).__name__}: {e}"[:200])
    # (b) dict of Series whose (shared) index is sparse and unsorted; the column is supplied exactly as a first run
    # on the same dict returned it (a coherent user workflow: whatever index the API gives back is what comes in)
    idx = [40, 3, 17, 9, 28, 5, 77, 12][: len(df)]
    d3 = {c: pd.Series(df[c].values, index=idx, name=c) for c in df.columns}
    try:
        base3 = compute_taxes_and_transfers(dict(d3), P, F, targets=targets + [n])
        t = differs(base3)
        if t:
            bad.append(f"dict-of-Series input (non-default index) changes {t} relative to the DataFrame run")
        d3[n] = base3[n]
        t = differs(compute_taxes_and_transfers(d3, P, F, targets=targets))
        if t:
            bad.append(f"dict-of-Series input (non-default index): supplying {n} as returned by a first run changes {t}")
    except Exception as e:   # noqa: BLE001
        bad.append(f"dict-of-Series input: supplying {n} as returned by a first run on the same data raises {type(e).__name__}: {e}"[:200])
    return n, bad, None


def witness_roundtrips(ck, tier, rnd):
    """Integration witnesses -- concrete, NOT the deciding step: the value-level statement of C05
    (dtype coercion of the supplied column, pandas alignment) is outside what the encoder sees."""
    date = datetime.date(2023, 7, 1)
    d0 = symdag.Dag(date)
    nodes = sorted(n for n in d0.graph.nodes if n in d0.funcs)
    rnd.shuffle(nodes)
    ids = [f"{g}_id" for g in gt.GROUPS if f"{g}_id" in d0.graph.nodes]
    # the other time units of the supplied flow columns (amounts with cents: x*12/12 is then not x in floating point)
    cols = list(witness_population(date).columns)
    conv = sorted({c[:-1] + u for c in cols if c[-2:] in ("_y", "_m", "_w", "_d") for u in "ymwd" if c[:-1] + u not in cols and c[:-1] + u in d0.graph.nodes})
    pick = ["geburtsdatum", "alter_monate"] + ids + conv[: (4 if tier == "quick" else None)] + (nodes[:10] if tier == "quick" else nodes)
    pick = list(dict.fromkeys(n for n in pick if n in d0.graph.nodes))
    with multiprocessing.get_context("fork").Pool(common.JOBS) as pool:
        res = pool.map(_roundtrip, [(date, n) for n in pick], chunksize=1)
    ck.extra["integration_witness_roundtrips"] = len(res)
    for n, bad, err in res:
        ck.obligations += 1
        if err:
            ck.discharged += 1
            continue
        if not bad:
            ck.discharged += 1
            continue
        if not ck.violation(["roundtrip", n], f"witness household at {date}: {bad[0]}", {"witness": n, "date": str(date)}):
            pass


def _fp_nonidempotent(base, direction, to_add):
    """z3, Float64 round-to-nearest: an amount x = base * k + to_add on the statutory grid (k a 20-bit integer, 10000..500000) with
    R(x) != x, R(u) = base * rnd(u / base) + to_add (the formula of the rounding wrapper, which C10 proves for the real wrapper
    over the reals).  Such amounts are what a computed column really contains; code that 're-rounds' a supplied column changes
    them.  Posed for floor / ceil on non-integer bases only (integer bases divide exactly; 'nearest' is not decided by z3 within
    60 s and is not posed).  -> (verdict, [x], seconds)"""
    import time
    import z3
    from gsv import fpcheck
    if direction == "nearest" or float(base) == int(base):
        return "not posed", [], 0.0
    F, RNE = fpcheck.F64, z3.RNE()
    mode = {"down": z3.RTN(), "up": z3.RTP()}[direction]
    b, a = z3.FPVal(float(base), F), z3.FPVal(float(to_add), F)
    k = z3.BitVec("k", 20)
    x = z3.fpAdd(RNE, z3.fpMul(RNE, b, z3.fpToFP(RNE, z3.ZeroExt(12, k), F)), a)
    rx = z3.fpAdd(RNE, z3.fpMul(RNE, b, z3.fpRoundToIntegral(mode, z3.fpDiv(RNE, x, b))), a)
    s = z3.Solver()
    s.set("timeout", 90000)
    s.add(z3.UGE(k, 10000), z3.ULE(k, 500000), z3.Not(z3.fpEQ(rx, x)))
    t0 = time.time()
    r = str(s.check())
    return r, ([fpcheck.fp_to_float(s.model(), x)] if r == "sat" else []), time.time() - t0


def _passthrough(args):
    """real API: a supplied column that overrides rule n is handed to its consumers (and back to the caller) bit for bit"""
    date, n, vals = args
    import warnings
    import numpy
    from _gettsim.interface import compute_taxes_and_transfers
    from _gettsim.policy_environment import set_up_policy_environment
    try:
        params, funcs = set_up_policy_environment(date)
        df = witness_population(date)
        col = [vals[i % len(vals)] for i in range(len(df))]
        df[n] = col
        # a consumer that hands its argument back: what it returns is what the graph fed it for column n
        ns = {}
        exec(f"def gsv_probe({n}: float) -> float:\n    return {n}\n", ns)   # noqa: S102
        fl = dict(funcs) if isinstance(funcs, dict) else list(funcs)
        if isinstance(fl, dict):
            fl["gsv_probe"] = ns["gsv_probe"]
        else:
            fl.append(ns["gsv_probe"])
        bad = []
        for rounding in (True, False):
            with warnings.catch_warnings():
                warnings.simplefilter("ignore")
                res = compute_taxes_and_transfers(data=df, params=params, functions=fl, targets=["gsv_probe"], rounding=rounding)
            got = numpy.asarray(res["gsv_probe"], dtype=float).tolist()
            if got != col:
                bad.append(f"{n} supplied as {col} reaches a consumer as {got} (rounding={rounding}): the supplied column is altered before use")
        return n, bad, None
    except Exception as e:   # noqa: BLE001
        return n, [], f"{type(e).__name__}: {e}"[:200]


def override_passthrough(ck, tier):
    """Every rule with a rounding specification in force, overridden by a supplied column holding on-grid amounts on which the
    rounding formula is NOT idempotent in Float64 (found by z3 per base / direction / offset): the column must come back, and
    reach its consumers, unchanged.  A thirteenth-round seeded change 'snapped' supplied sub-Euro columns to their grid:
    0.01 * floor(1043.81 / 0.01) is 1043.80."""
    import datetime as _dt
    from _gettsim.policy_environment import set_up_policy_environment
    dates = [_dt.date(2023, 7, 1)] if tier == "quick" else [_dt.date(2015, 1, 1), _dt.date(2019, 1, 1), _dt.date(2023, 7, 1)]
    jobs, lemmas = [], {}
    for date in dates:
        params, _ = set_up_policy_environment(date)
        d0 = symdag.Dag(date)
        for grp, p in params.items():
            for n, spec in (p.get("rounding", {}) if isinstance(p, dict) else {}).items():
                if n not in d0.funcs or "base" not in spec or "direction" not in spec:
                    continue
                key = (float(spec["base"]), spec["direction"], float(spec.get("to_add_after_rounding", 0) or 0))
                if key not in lemmas:
                    lemmas[key] = _fp_nonidempotent(*key)
                    ck.obligations += 1
                    ck.queries += 1
                    ck.solver_time += lemmas[key][2]
                    if lemmas[key][0] in ("sat", "unsat", "not posed"):
                        ck.discharged += 1
                    else:
                        ck.inconclusive.append(f"Float64 idempotence of rounding {key}: {lemmas[key][0]}")
                vals = lemmas[key][1] + [key[0] * 104381 + key[2], key[0] * 7 + key[2]]
                jobs.append((date, n, vals))
    ck.extra["rounding_formulas_not_idempotent_in_float64"] = [list(k) for k, v in lemmas.items() if v[0] == "sat"]
    ck.bounds["override_passthrough"] = f"{len(jobs)} overridable rounded rules at {[str(d) for d in dates]}; witness amounts: z3 Float64 model of a non-idempotent on-grid amount (floor/ceil, non-integer base, grid index 10000..500000) plus two fixed on-grid amounts; consumer = a probe rule returning its argument"
    with multiprocessing.get_context("fork").Pool(common.JOBS) as pool:
        res = pool.map(_passthrough, jobs, chunksize=1)
    for (date, n, vals), (_, bad, err) in zip(jobs, res):
        ck.obligations += 1
        if err:
            ck.inconclusive.append(f"passthrough {n} at {date}: {err}")
            continue
        if not bad:
            ck.discharged += 1
            continue
        ck.violation(["passthrough", n], f"at {date}: {bad[0]}", {"passthrough": n, "date": str(date), "vals": vals})


def run(tier):
    ck = common.Check("C05", tier)
    rnd = random.Random(common.SEED)
    dates = [datetime.date(2023, 7, 1)] if tier == "quick" else [datetime.date(2015, 1, 1), datetime.date(2020, 1, 1), datetime.date(2023, 7, 1)]
    jobs = []
    for date in dates:
        d0 = symdag.Dag(date)
        nodes = sorted(n for n in d0.graph.nodes if n in d0.funcs)
        rnd.shuffle(nodes)
        timeish = [n for n in nodes if n.endswith(("_m", "_y")) or "_m_" in n or "_y_" in n]
        pick = (timeish[:8] + nodes[:12]) if tier == "quick" else nodes
        jobs += [(date, n) for n in dict.fromkeys(pick)]
    with multiprocessing.get_context("fork").Pool(common.JOBS) as pool:
        results = pool.map(_work, jobs, chunksize=1)
    for (date, n), res in zip(jobs, results):
        ck.obligations += 1
        ck.queries += res["queries"]
        ck.nontrivial.add(n)
        if len(ck.samples) < 8:
            ck.samples.append({"overridden_node": n, "date": str(date), "nodes_compared": res["nodes"], "proved_under_hypothesis": res["hyp"],
                               "differences": res["diffs"][:2], "error": res["error"]})
        if res["error"]:
            ck.inconclusive.append(f"{n}@{date}: {res['error']}")
            continue
        if not res["diffs"]:
            ck.discharged += 1
            continue
        for dtext in res["diffs"][:3]:
            ck.violation(["override-changes-definition", n, dtext.split(":")[0]], f"supplying {n} at {date}: {dtext}", {"date": str(date), "n": n})
    # a computed group-level column must be admissible as data: the interface's group check accepts it iff it is
    # constant within its own group (solver obligation on the real check, shared with C20)
    from gsv.checks import c20
    c20.group_level_columns(ck, 3 if tier == "quick" else 4, pid="C05")
    warning_witness(ck)
    witness_roundtrips(ck, tier, rnd)
    override_passthrough(ck, tier)
    ck.bounds = {"overridden_nodes": len(jobs), "dates": [str(d) for d in dates],
                 "outside": "value-level identity of the whole API call (pandas/dags); dtype coercion of the supplied column is C03/C20's subject"}
    ck.rule = "one obligation per overridden node; all other nodes compared pairwise; changed provenance proved under n = def(n)"
    ck.explanation = ("With node n supplied as data the real loader's graph must use the column (n becomes a root) and every other node must keep its definition; "
                      "z3 decides equality where callables are not identical objects, under the hypothesis that the supplied column equals the computed one.")
    return ck.finish()


def replay(path):
    d = json.load(open(path))["replay"]
    if d.get("kind") == "data":
        from gsv.checks import c20
        return c20.replay(path)
    if "passthrough" in d:
        n, bad, err = _passthrough((datetime.date.fromisoformat(d["date"]), d["passthrough"], d["vals"]))
        print(bad or err or "no difference")
        return 1 if bad else 0
    if "witness" in d:
        n, bad, err = _roundtrip((datetime.date.fromisoformat(d["date"]), d["witness"]))
        print(bad, err)
        return 1 if bad else 0
    if "n" not in d:
        print("re-run the check")
        return 0
    res = _work((datetime.date.fromisoformat(d["date"]), d["n"]))
    print(res)
    return 1 if res["diffs"] else 0
