"""C10 -- statutory rounding is applied exactly once, on the right grid.

Per rule carrying a rounding key x date class: the *real* wrapper produced by
`_add_rounding_to_functions` (real spec lookup in the real params) is executed symbolically on a
free real standing for the unrounded value and compared with the spec read independently from
the raw YAML (reference resolver): grid membership, direction, |error| < base, offset.
Derived time-unit / group-sum nodes of rounded rules must equal plain conversion / aggregation.
"""
from __future__ import annotations

import datetime
import fractions
import json

import numpy
import z3

from gsv import colsym, common, gt, symdag
from gsv import rulesym as R
from gsv.reference import resolver as ref


def rounded_rules(F):
    out = {}
    for name, f in F.items():
        k = getattr(f, "__info__", {}).get("params_key_for_rounding")
        if k:
            out[name] = (f, k)
    return out


def make_stub(name, f):
    def stub(x):
        return x
    stub.__name__ = f.__name__
    stub.__qualname__ = f.__qualname__
    stub.__info__ = dict(f.__info__)
    stub._gsv_inline = True
    return stub


def zfr(x):
    fr = fractions.Fraction(x)
    return z3.RealVal(f"{fr.numerator}/{fr.denominator}")


def date_classes(tier):
    from gsv import dateprobe
    if tier == "quick":
        lo = datetime.date(2015, 1, 1)
        extra = [datetime.date(2001, 6, 1), datetime.date(2002, 6, 1), datetime.date(2003, 6, 1), datetime.date(1998, 1, 1)]
        return [datetime.date(2015, 1, 1), datetime.date(2017, 7, 1), datetime.date(2019, 7, 1), datetime.date(2021, 1, 1),
                datetime.date(2022, 10, 1), datetime.date(2023, 7, 1), datetime.date(2024, 1, 1), datetime.date(2025, 1, 1)] + extra, None
    regs, st = dateprobe.explore(datetime.date(1980, 1, 1), max(dateprobe.yaml_seed_dates()) + datetime.timedelta(days=366),
                                 check_endpoints=False)
    seen, out = set(), []
    for r in regs:
        if r.fp and r.fp not in seen:
            seen.add(r.fp)
            out.append(r.rep)
    return out, st


def unmarked_on_grid(ck, rs, name, group, f, spec, P, F, date, seen):
    sig = ("unmarked", f.__name__, repr(spec))
    if sig in seen:
        return
    seen.add(sig)
    label = f"{name}@{date}"
    base, off = spec.get("base"), spec.get("to_add_after_rounding", 0)
    try:
        kw, syms = gt.rule_args(f, P)
        v, ctx = R.run(f, kwargs=kw)
        if v is None:
            return
        out = R.term_of(v, float)
    except (R.Unsupported, KeyError) as e:
        ck.add_inconclusive(f"spec without marker {label}: not encodable ({e})"[:160])
        return
    pre = list(ctx.assumptions)
    for a, s_ in syms.items():
        fa = F.get(a)
        ga = getattr(fa, "__info__", {}).get("params_key_for_rounding") if fa is not None else None
        sa = (rs.rounding(ga, date) or {}).get(a) if ga else None
        if sa and "base" in sa:      # an argument that is itself a rounded column lies on its grid
            pre.append(z3.IsInt((R.term_of(s_, float) - zfr(sa.get("to_add_after_rounding", 0))) / zfr(sa["base"])))
    r, m = ck.oblige(f"spec applied or value on grid {label}", pre + [z3.Not(z3.IsInt((out - zfr(off)) / zfr(base)))], 60,
                     sample={"rule": f.__name__, "date": str(date), "spec_from_yaml": dict(spec), "claim": "unmarked rule returns on-grid values only"})
    ck.nontrivial.add(sig)
    if r == "sat":
        row = {a: R.model_value(m, s_) for a, s_ in syms.items()}
        try:
            val = float(f(**row, **{k: v_ for k, v_ in kw.items() if k.endswith("_params")}))
        except Exception:   # noqa: BLE001
            val = None
        k = None if val is None else (val - float(off)) / float(base)
        what = (f"{label}: the YAML of {group} holds the rounding specification {dict(spec)}, but the implementation in force ({f.__name__}) is not marked for "
                f"rounding and returns {val!r} for {row}: the column is not rounded")
        if k is not None and abs(k - round(k)) > 1e-6:
            ck.violation(["spec-not-applied", name, f.__name__], what, {"kind": "marker", "name": name, "group": group, "date": str(date), "row": row})
        else:
            common.spurious("C10", what)


def closure_sig(fn):
    """plain constants captured by the wrapper (base, direction, offset): two wrappers of the same stub with the
    same captured constants are the same function, so one proof serves both"""
    out = []
    for c in (fn.__closure__ or ()):
        try:
            v = c.cell_contents
        except ValueError:
            continue
        if isinstance(v, (int, float, str, bool, type(None), numpy.number)):
            out.append(repr(v))
    return tuple(sorted(out))


def joint_wrappers(F, P, rr, reverse):
    """the production call shape: ONE _add_rounding_to_functions call over the whole function dict (in the loader's
    order, or reversed), stubs in place of the rounded rules that have a specification at this date"""
    from _gettsim.interface import _add_rounding_to_functions
    fns = {}
    for nm in (reversed(list(F)) if reverse else list(F)):
        if nm in rr:
            f, key = rr[nm]
            if not (key in P and nm in P[key].get("rounding", {})):
                continue          # marked without a spec: the production call raises (checked per rule)
            fns[nm] = make_stub(nm, f)
        else:
            fns[nm] = F[nm]
    try:
        return _add_rounding_to_functions(fns, P)
    except Exception:   # noqa: BLE001 -- decided per rule below
        return {}


def check_rule(ck, rs, name, f, key, P, date, seen, joint=()):
    from _gettsim.interface import _add_rounding_to_functions, _round_and_partial_parameters_to_functions
    spec = rs.rounding(key, date).get(name) if key in rs_groups(rs) else None
    stub = make_stub(name, f)
    label = f"{name}@{date}"
    try:
        wrapped = _add_rounding_to_functions({name: stub}, P)[name]
        raised = None
    except KeyError as e:
        wrapped, raised = None, e
    # --- marked for rounding without a specification at that date => error -----------------
    ck.obligations += 1
    if spec is None or not ("base" in spec and "direction" in spec):
        if raised is None:
            if not ck.violation(["no-spec-accepted", name, str(date)], f"{label}: no rounding spec in the YAML at that date but no error",
                                {"kind": "nospec", "name": name, "date": str(date)}):
                ck.discharged += 1
        else:
            ck.discharged += 1
        return
    if raised is not None:
        if not ck.violation(["spec-missing-in-env", name, str(date)], f"{label}: YAML has a rounding spec {spec} but the environment lacks it ({raised})",
                            {"kind": "nospec", "name": name, "date": str(date)}):
            ck.discharged += 1
        return
    ck.discharged += 1
    base, direction = spec["base"], spec["direction"]
    offset = spec.get("to_add_after_rounding", 0)
    variants = [("", wrapped)] + [(how, j[name]) for how, j in joint if name in j]
    for how, w in variants:
        sig = (f.__name__, repr(base), direction, repr(offset), repr(P[key]["rounding"].get(name)), closure_sig(w))
        if sig in seen:
            continue
        seen.add(sig)
        _check_wrapper(ck, name, f, w, how, spec, date, label)
    # rounding=False => unrounded function object is used as is
    x = R.Sym(z3.Real("x"), float)
    ck.obligations += 1
    proc = _round_and_partial_parameters_to_functions({name: stub}, P, rounding=False)[name]
    if proc is stub:
        ck.discharged += 1
    else:
        vv, _ = R.run(proc, kwargs={"x": x})
        r2, _ = ck.solve([R.term_of(vv, float) != x.t])
        if r2 == "unsat":
            ck.discharged += 1
        else:
            ck.violation(["rounding-false-changes-value", name], f"{label}: rounding=False still changes the value", {"kind": "nospec", "name": name, "date": str(date)})


def _check_wrapper(ck, name, f, wrapped, how, spec, date, label):
    base, direction = spec["base"], spec["direction"]
    offset = spec.get("to_add_after_rounding", 0)
    if how:
        label = f"{label} [{how}]"
    x = R.Sym(z3.Real("x"), float)
    v, ctx = R.run(wrapped, kwargs={"x": x})
    ck.functions |= ctx.funcs
    if v is None:
        errs = [k for g, k, w in ctx.errors]
        if not ck.violation(["wrapper-raises", name, str(date)], f"{label}: rounding wrapper raises {errs} for spec {spec}",
                            {"kind": "value", "name": name, "date": str(date), "x": 1.0}):
            pass
        return
    r = R.term_of(v, float)
    b, off = zfr(base), zfr(offset)
    q = (r - off) / b
    obs = [("on-grid", [z3.Not(z3.IsInt(q))]),
           ("error<base", [z3.Or(r - off - x.t >= b, x.t - (r - off) >= b)])]
    if direction == "up":
        obs.append(("direction-up", [r - off < x.t]))
    elif direction == "down":
        obs.append(("direction-down", [r - off > x.t]))
    elif direction == "nearest":
        obs.append(("direction-nearest", [z3.Or(r - off - x.t > b / 2, x.t - (r - off) > b / 2)]))
    else:
        ck.violation(["bad-direction", name, str(date)], f"{label}: direction {direction!r}", {"kind": "nospec", "name": name, "date": str(date)})
        return
    errs = [g for g, k, w in ctx.errors]
    if errs:
        obs.append(("wrapper-does-not-raise", [z3.Or(errs)]))
    rr, _ = ck.solve([r == r])
    for lab, cons in obs:
        res, m = ck.oblige(f"{lab} {label}", cons, 60,
                           sample={"rule": name, "date": str(date), "spec_from_yaml": {k: v for k, v in spec.items()}, "claim": lab})
        ck.nontrivial.add((lab, f.__name__, repr(base), direction, repr(offset)))
        if res == "sat":
            xv = float(R.z3_to_fraction(m.eval(x.t, model_completion=True)))
            rep = replay_value(name, date, xv, how)
            what = f"{label}: {lab} fails: unrounded {xv!r} -> {rep['rounded']!r}, YAML spec base={base} direction={direction} offset={offset}"
            if rep["fails"]:
                ck.violation([lab, name, f"base={base},dir={direction},offset={offset}"], what,
                             {"kind": "value", "name": name, "date": str(date), "x": xv, "how": how})
            else:
                common.spurious("C10", what)
_GROUPS = None


def rs_groups(rs):
    global _GROUPS
    if _GROUPS is None:
        from _gettsim.config import INTERNAL_PARAMS_GROUPS
        _GROUPS = set(INTERNAL_PARAMS_GROUPS)
    return _GROUPS


def replay_value(name, date, xv, how=""):
    """real wrapper (through the real _add_rounding_to_functions on the real env) applied to a float array"""
    from _gettsim.interface import _add_rounding_to_functions
    from _gettsim.config import RESOURCE_DIR
    P, F = gt.env(date)
    f = F[name]
    key = f.__info__["params_key_for_rounding"]
    rs = ref.Resolver(RESOURCE_DIR / "parameters")
    spec = rs.rounding(key, date).get(name)
    stub = make_stub(name, f)
    if how:
        wrapped = joint_wrappers(F, P, rounded_rules(F), "reversed" in how)[name]
    else:
        wrapped = _add_rounding_to_functions({name: stub}, P)[name]
    out = float(numpy.asarray(wrapped(numpy.array([xv])))[0])
    base, direction, off = spec["base"], spec["direction"], spec.get("to_add_after_rounding", 0)
    k = (out - off) / base
    fails = abs(k - round(k)) > 1e-6 or abs(out - off - xv) >= base * (1 + 1e-9)
    if direction == "up":
        fails = fails or out - off < xv - 1e-9
    if direction == "down":
        fails = fails or out - off > xv + 1e-9
    if direction == "nearest":
        fails = fails or abs(out - off - xv) > base / 2 * (1 + 1e-9)
    return {"rounded": out, "fails": fails}


FACT = {"y": fractions.Fraction(1), "m": fractions.Fraction(12), "w": fractions.Fraction(36525, 700), "d": fractions.Fraction(36525, 100)}


def derived_not_rounded(ck, date, names, seen):
    """time-unit siblings and automatic group sums of rounded rules are plain conversions / sums"""
    import re
    pat = re.compile(r"(?P<base>.*_)(?P<u>[ymwd])(?P<agg>_(hh|wthh|fg|bg|eg|ehe|sn))?$")
    targets, plan = [], []
    for n in names:
        mt = pat.fullmatch(n)
        if mt:
            for u in "ymwd":
                if u != mt.group("u"):
                    d = f"{mt.group('base')}{u}{mt.group('agg') or ''}"
                    targets.append(d)
                    plan.append((d, n, "time", FACT[mt.group("u")] / FACT[u]))
        if not gt.suffix_group(n):
            d = f"{n}_hh"
            targets.append(d)
            plan.append((d, n, "sum", None))
    from _gettsim.interface import _add_rounding_to_functions
    try:
        # graph structure without rounding (other rules of the graph may lack a spec at this date);
        # the real rounding step is then applied to each derived node on its own below
        dag = symdag.Dag(date, targets=targets, rounding=False)
    except Exception as e:
        raise common.HarnessError(f"cannot build the derived-node graph at {date}: {e}")
    P = dag.params
    for d, src, kind, fac in plan:
        if d not in dag.funcs or dag.kind(d) == "rule":
            continue
        if src not in dag.parents(d):
            # a derived node that does not read the rounded rule directly (e.g. converts a sibling)
            continue
        key = (kind, d, src)
        if key in seen:
            continue
        seen.add(key)
        ctx = R.Ctx()
        try:
            fn_d = _add_rounding_to_functions({d: dag.raw_funcs[d]}, P)[d]
        except KeyError:
            # the derived node is marked for rounding (it inherited the key): that is "rounded again"
            ck.obligations += 1
            ck.violation(["derived-rounded-again", d], f"{d} (derived from rounded {src}) carries a rounding key of its own at {date}",
                         {"kind": "derived", "name": d, "src": src, "date": str(date)})
            continue
        if kind == "time":
            s = R.Sym(z3.Real("s"), float)
            with R.using(ctx):
                v = R.call_value(fn_d, [], {src: s})
            cons = [z3.Or(R.term_of(v, float) - s.t * zfr(fac) > zfr(fractions.Fraction(1, 10**9)) * z3.If(s.t >= 0, s.t, -s.t) + zfr(fractions.Fraction(1, 10**12)),
                          s.t * zfr(fac) - R.term_of(v, float) > zfr(fractions.Fraction(1, 10**9)) * z3.If(s.t >= 0, s.t, -s.t) + zfr(fractions.Fraction(1, 10**12)))]
            res, m = ck.oblige(f"not-rounded-again {d}<-{src}@{date}", cons, 30,
                               sample={"derived": d, "source": src, "claim": "derived == source * factor (no rounding step)", "factor": str(fac)})
        else:
            n = 2
            col = colsym.SymArray([R.Sym(z3.Real(f"s{i}"), float) for i in range(n)], float)
            gid = colsym.SymArray([R.Sym(z3.Int(f"g{i}"), int) for i in range(n)], int)
            with R.using(ctx):
                v = R.call_value(fn_d, [], {src: col, "hh_id": gid})
            pre = [g.t >= 0 for g in gid.e]
            spec = [z3.Sum([z3.If(gid.e[j].t == gid.e[i].t, col.e[j].t, z3.RealVal(0)) for j in range(n)]) for i in range(n)]
            cons = pre + [z3.Or([R.term_of(v.e[i], float) != spec[i] for i in range(n)])]
            res, m = ck.oblige(f"not-rounded-again {d}<-{src}@{date}", cons, 30,
                               sample={"derived": d, "source": src, "claim": "group sum of a rounded column is the plain sum (N=2)"})
        ck.nontrivial.add(("derived", d))
        ck.functions |= ctx.funcs
        if res == "sat":
            # replay concretely: call the real derived callable on numpy input
            ok = replay_derived(fn_d, d, src, kind, fac)
            if ok:
                common.spurious("C10", f"derived node {d} model does not reproduce")
            else:
                ck.violation(["derived-rounded-again", d], f"{d} (derived from rounded {src}) is not the plain conversion/sum at {date}",
                             {"kind": "derived", "name": d, "src": src, "date": str(date)})


def replay_derived(fn_d, d, src, kind, fac):
    xs = numpy.array([0.3, 1.7, 100.49, 12345.678])
    if kind == "time":
        out = numpy.asarray(fn_d(**{src: xs}), dtype=float)
        return bool(numpy.allclose(out, xs * float(fac), rtol=1e-9, atol=1e-12))
    out = numpy.asarray(fn_d(**{src: xs, "hh_id": numpy.array([0, 0, 1, 1])}), dtype=float)
    return bool(numpy.allclose(out, [2.0, 2.0, 100.49 + 12345.678, 100.49 + 12345.678]))


def _chunk(ck, items):
    from _gettsim.config import RESOURCE_DIR
    rs = ref.Resolver(RESOURCE_DIR / "parameters")
    seen, seen_d = set(), set()
    n = 0
    for date, with_derived in items:
        P, F = gt.env(date)
        rr = rounded_rules(F)
        # every rounding specification in force must take effect: the rule registered under that name at this date
        # carries the marker for that parameter group -- or, unmarked, provably returns values that are on the grid
        # already (a pass-through of a rounded column).  A spec without a marked rule is silently ignored by the loader.
        for group in rs_groups(rs):
            specs_now = rs.rounding(group, date) or {}
            for spec_name in sorted(specs_now):
                f_active = F.get(spec_name)
                if f_active is None or getattr(f_active, "__info__", {}).get("params_key_for_rounding") == group:
                    continue
                unmarked_on_grid(ck, rs, spec_name, group, f_active, specs_now[spec_name], P, F, date, seen)
        joint = [("one call over all functions", joint_wrappers(F, P, rr, False)),
                 ("one call over all functions, reversed order", joint_wrappers(F, P, rr, True))]
        for name, (f, key) in rr.items():
            n += 1
            check_rule(ck, rs, name, f, key, P, date, seen, joint)
        if with_derived:
            with_spec = [nm for nm, (f, key) in rr.items() if key in P and nm in P[key].get("rounding", {})]
            derived_not_rounded(ck, date, with_spec, seen_d)
    ck.extra["rule_x_date"] = ck.extra.get("rule_x_date", 0) + n
    ck.extra["distinct_wrappers"] = ck.extra.get("distinct_wrappers", 0) + len(seen)
    ck.extra["derived_nodes"] = ck.extra.get("derived_nodes", 0) + len(seen_d)


def run(tier):
    from _gettsim.config import RESOURCE_DIR
    ck = common.Check("C10", tier)
    rs = ref.Resolver(RESOURCE_DIR / "parameters")
    dates, st = date_classes(tier)
    items = [(d, tier == "thorough" or d in dates[:3]) for d in dates]
    chunks = [items[i::common.JOBS] for i in range(common.JOBS) if items[i::common.JOBS]] if len(items) > 1 else [items]
    if len(chunks) == 1:
        _chunk(ck, chunks[0])
    else:
        common.run_parallel(ck, _chunk, chunks)
    n = ck.extra.get("rule_x_date", 0)
    seen, seen_d = range(ck.extra.get("distinct_wrappers", 0)), range(ck.extra.get("derived_nodes", 0))
    ck.bounds = {"date_classes": len(dates), "rule_x_date": n, "distinct_wrappers": len(seen), "derived_nodes": len(seen_d),
                 "unrounded_value": "all reals", "group_sum_rows": 2,
                 "window": "quick: 12 fixed dates; thorough: one representative per distinct environment 1980..last entry+1y"}
    if st:
        ck.extra["date_exploration"] = {k: v for k, v in st.items() if k != "leaks"}
    ck.stubs = ["numpy.ceil/floor/round (half to even) -> exact integer arithmetic over reals"]
    ck.assumptions = ["floats as exact reals: the statement is about exact arithmetic on the stored doubles; the float deviation of base*round(x/base) "
                      "from the exact grid point is at most a few ulp and is not part of this claim"]
    ck.rule = "one obligation per (distinct wrapper = function x base x direction x offset, claim) and per derived node"
    ck.explanation = ("Real rounding wrapper (from the real _add_rounding_to_functions and the real environment) executed on a free real; z3 proves grid "
                      "membership, direction, error < base and offset against the spec read independently from raw YAML; missing specs must raise; derived "
                      "time-unit/group-sum nodes are proved to be plain conversions/sums.")
    return ck.finish()


def replay(path):
    d = json.load(open(path))["replay"]
    date = datetime.date.fromisoformat(d["date"])
    if d["kind"] == "value":
        rep = replay_value(d["name"], date, d["x"], d.get("how", ""))
        print(rep)
        return 1 if rep["fails"] else 0
    if d["kind"] == "marker":
        from _gettsim.config import RESOURCE_DIR
        P, F = gt.env(date)
        f = F.get(d["name"])
        marked = f is not None and getattr(f, "__info__", {}).get("params_key_for_rounding") == d["group"]
        print("active implementation", getattr(f, "__name__", None), "marked:", marked)
        if f is None or marked:
            return 0
        spec = ref.Resolver(RESOURCE_DIR / "parameters").rounding(d["group"], date)[d["name"]]
        kw = {a: P[a[:-7]] for a in __import__("inspect").signature(f).parameters if a.endswith("_params")}
        val = float(f(**d["row"], **kw))
        k = (val - float(spec.get("to_add_after_rounding", 0))) / float(spec["base"])
        print("value", val, "grid position", k)
        return 1 if abs(k - round(k)) > 1e-6 else 0
    print("replay of kind", d["kind"], "= re-run the check")
    return 0
