"""C12 -- derived units (marriage, tax, family, needs, housing) partition correctly.

CrossHair (z3) symbolically executes the real *_id_numpy functions of groupings.py on symbolic pointer
structures over canonical labels 0..N-1 and must confirm, over all paths, pairwise obligations derived
from the unit definitions (hh_concepts.md / GEP-1), unit nesting, id non-collision, and invariance
under every row permutation.  Only "Confirmed over all paths" discharges an obligation.
"""
from __future__ import annotations

import json

from gsv import common, grouping_checks as GC, xh

CONDS = {
    "check_eg": "partners (and only partners) share an Einstandsgemeinschaft, for every row order",
    "check_ehe": "spouses (and only spouses) share a marriage unit, for every row order",
    "check_sn": "spouses share a tax unit iff jointly assessed, for every row order",
    "check_bg": "needs unit = family unit minus self-sufficient children under 25 (each a singleton); bg within fg; ids do not collide; every row order",
    "check_wthh": "part-household = household x priority flag; within the household; ids of different households differ; every row order",
}
# the Familiengemeinschaft conditions are decided by rulesym + z3 on the real fg_id_numpy (gsv.fgsym):
# CrossHair finds their counterexamples but does not confirm them within budget even at N=3
TWINS = ["check_eg_twin", "check_sn_twin"]
# fallback (bug finding only) when the z3 engine cannot encode fg_id_numpy: CrossHair on the same claims
FG_CONDS = {
    "check_fg_partner": "partners share a Familiengemeinschaft",
    "check_fg_child": "a co-resident childless child under 25 shares the family unit of its parent(s) and their partner",
    "check_fg_nopath": "persons without a pointer path, or in different households, are in different family units",
    "check_fg_order": "the family-unit partition is the same for every row order",
}


def replay_cex(cond, cex, n):
    """re-evaluate the harness condition on the *real* (unstubbed) functions with numpy arrays"""
    import importlib.util
    import numpy
    import _gettsim.groupings as G
    import importlib
    importlib.reload(G)                     # make sure the numpy stub of a previous import is gone
    from gsv import harness_groupings as H
    src = H.render(n, ())
    src = src.replace("G.numpy = _NP", "pass")
    ns = {}
    exec(compile(src, "<harness>", "exec"), ns)   # noqa: S102 -- our own template
    args = [cex[i] for i in sorted(k for k in cex if isinstance(k, int))]
    kwargs = {k: v for k, v in cex.items() if isinstance(k, str)}
    # real numpy arrays in, python lists inside the reference predicates
    fn = ns[cond]
    # the harness passes python lists straight into the real functions; with the stub removed they
    # return numpy arrays, which the reference predicates index like lists
    try:
        return bool(fn(*args, **kwargs)) is False
    except Exception as e:   # noqa: BLE001
        return f"raises {type(e).__name__}: {e}"


def run(tier):
    ck = common.Check("C12", tier)
    n = 3 if tier == "quick" else 4
    timeout = 150 if tier == "quick" else 1500
    excl = GC.known_fg_classes(ck, "C12")
    from gsv import fgsym, groupsym
    # primary engine: rulesym + z3 on the real functions
    groupsym.run_all(ck, n)
    fgsym.run_obligations(ck, "C12", n, excl, with_orders=True, with_relabel=False, sep_na=None, timeout=300)
    if tier == "thorough":
        # the property's "up to five persons" for the functions where it is affordable (all 120 row orders)
        groupsym.run_all(ck, 5, which=("eg", "sn", "bg", "wthh"))
        # ... and for the Familiengemeinschaft: definitions at N=5 and all 119 row orders, spread over the cores
        fgsym.run_order_obligations_parallel(ck, "C12", 5, excl, timeout=900)
    # second, independent engine: CrossHair on the same functions at N=3
    conds = [c for c in CONDS if tier == "thorough" or c != "check_bg"]
    if any(k.startswith("fg_id_numpy") for k in ck.not_encoded):
        CONDS.update(FG_CONDS)
        conds += list(FG_CONDS)
        ck.extra["fg_fallback"] = "fg_id_numpy not encodable by rulesym: CrossHair conditions added (counterexamples only; no confirmation expected)"
    n_xh = 3
    res = GC.run_conditions(ck, "C12", n_xh, conds, 150 if tier == "quick" else 400, excl, TWINS)
    n_main, n = n, n_xh
    for cond, (verdict, cex, secs, tail) in sorted(res.items()):
        ck.obligations += 1
        ck.nontrivial.add(cond)
        ck.samples.append({"condition": cond, "claim": CONDS[cond], "persons": n, "verdict": verdict, "seconds": secs,
                           "excluded_structure_classes": excl if cond.startswith("check_fg") else []})
        if verdict == "confirmed":
            ck.discharged += 1
        elif verdict == "counterexample":
            rep = replay_cex(cond, cex, n)
            if rep is True:
                args = [cex[i] for i in sorted(k for k in cex if isinstance(k, int))]
                cls = GC.classify_fg(*args) if cond.startswith("check_fg") and len(args) == 5 else []
                ck.violation([cond, ",".join(cls) or "unclassified"],
                             f"{cond} ({CONDS[cond]}) fails for N={n}: args={args} classes={cls}",
                             {"cond": cond, "cex": {str(k): v for k, v in cex.items()}, "n": n})
            else:
                common.spurious("C12", f"{cond}: CrossHair counterexample {cex} does not reproduce on the real functions ({rep})")
        else:
            ck.inconclusive.append(f"{cond} (N={n}): {verdict} within {timeout}s")
    xh.cleanup("C12")
    n = n_main
    ck.bounds = {"persons": n, "persons_thorough_eg_sn_bg_wthh": 5, "second_engine": "CrossHair at N=3", "row_orders": "all N! permutations", "labels": "canonical 0..N-1 (relabelling: C02)",
                 "per_condition_timeout_s": timeout, "households": "hh_id in {0,1}", "ages": "one representative per generation: 2, 20, 40, 60",
                 "excluded_known_classes": excl, "outside": "N=5 structures of the property text; symbolic labels together with permutations"}
    ck.assumptions = ["valid pointer structures: symmetric partner pointers within one household, parents one generation older, a parent is not one's partner, elternteil_1 != elternteil_2",
                      "numpy.asarray stubbed to list inside the traced module (results stay symbolic)"]
    ck.stubs = ["_gettsim.groupings.numpy.asarray -> list"]
    ck.rule = "one obligation per condition (unit definition x all row orders); only CrossHair's 'Confirmed over all paths' discharges"
    ck.explanation = ("CrossHair/z3 symbolic execution of the real grouping functions against pairwise unit obligations for all valid pointer structures of N persons "
                      "and all row orders; known-bad family-structure classes are excluded only while their fixed witness still fails on the real code.")
    ck.extra["engine"] = "crosshair-tool 0.0.110"
    return ck.finish()


def replay(path):
    d = json.load(open(path))["replay"]
    if d.get("kind") == "fg":
        bad, pi = GC.fg_order_dependent(d["w"])
        print("order dependent:", bad, pi)
        return 1 if bad else 0
    if d.get("kind") == "groupsym":
        from gsv import groupsym
        bad = groupsym.replay(d)
        print("reproduces:", bad)
        return 1 if bad else 0
    if d.get("kind") == "fgsym":
        from gsv import fgsym
        if d.get("variant"):
            fgsym.set_variant(d["variant"])
        if d["name"] == "fg_no_error":
            try:
                fgsym.real_partition(d["vals"], fgsym.LABS[d["n"]][0])
                bad = False
            except Exception as e:   # noqa: BLE001
                print("raises", type(e).__name__, e)
                bad = True
        else:
            bad = fgsym.reproduces(d["name"], d["vals"], d["n"], d.get("sep_na"))
        print("reproduces:", bad)
        return 1 if bad else 0
    cex = {(int(k) if k.isdigit() else k): v for k, v in d["cex"].items()}
    rep = replay_cex(d["cond"], cex, d["n"])
    print(rep)
    return 1 if rep is True else 0
