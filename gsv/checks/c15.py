"""C15 -- group-level columns have one value per group.

Inductive pass over the real DAG of the default targets per date class.  `const(n, g)` = node n has
one value per g-group.  Seeds: ids and the nesting of units (proved in C12), documented group-level
inputs, group aggregations.  A rule keeps const(n, g) iff z3 refutes the two-copy query: two persons
of one g-group sharing every argument a with const(a, g), all other arguments free, f_i != f_j.
Verdict: every node whose name carries suffix g has const(n, g).
"""
from __future__ import annotations

import datetime
import inspect
import json

import numpy
import z3

from gsv import common, gt, symdag, validity
from gsv import rulesym as R

G = gt.GROUPS
# same g-group  =>  same g'-group   (unit nesting; the facts C12 proves on the real grouping code)
IMPL = {"hh": {"hh"}, "wthh": {"wthh", "hh"}, "fg": {"fg", "hh"}, "bg": {"bg", "fg", "hh"},
        "eg": {"eg", "fg", "hh"}, "ehe": {"ehe"}, "sn": {"sn", "ehe"}}


# V: inputs without a group suffix that are household-constant by their documented meaning
HH_CONSTANT_INPUTS = {"mietstufe"}


def date_classes(tier):
    if tier == "quick":
        return list(gt.QUICK_DATES), None
    from gsv import dateprobe
    regs, st = dateprobe.explore(datetime.date(2015, 1, 1), max(dateprobe.yaml_seed_dates()), check_endpoints=False)
    seen, out = set(), []
    for r in regs:
        if r.fp and r.fp not in seen:
            seen.add(r.fp)
            out.append(r.rep)
    return out, st


class Facts:
    """lazy, memoised const(n, g) over one real DAG"""

    def __init__(self, ck, dag, date):
        self.ck, self.dag, self.date = ck, dag, date
        self.memo = {}
        self.enc = {}
        self.bad = {}
        self.inlined = {}

    def encode(self, n):
        """(function, {leaf argument: Sym}, value term, preconditions).  An argument that is itself a group-level rule
        whose own constancy obligation FAILS is not trusted (no assume/guarantee for a broken producer): its real source
        is inlined, so the consumer is analysed over the producer's arguments and a replay can start from them."""
        if n not in self.enc:
            f = self.dag.rule_function(n)
            try:
                syms, pre = {}, []
                v, errs, assumes = self._value(n, syms, set())
                self.enc[n] = (f, syms, R.lift(v)[0], validity.inputs(syms) + assumes + ([z3.Not(z3.Or(errs))] if errs else []))
            except R.Unsupported as e:
                self.ck.not_encoded[f.__name__] = str(e)[:100]
                self.enc[n] = None
        return self.enc[n]

    def _value(self, n, syms, stack):
        f = self.dag.rule_function(n)
        kw = {}
        errs, assumes = [], []
        for a in inspect.signature(f).parameters:
            if a.endswith("_params"):
                if a[:-7] not in self.dag.params:
                    raise R.Unsupported(f"parameter group {a[:-7]} missing")
                kw[a] = self.dag.params[a[:-7]]
                continue
            if a not in stack and a != n and self.is_bad(a):
                va, ea, aa = self._value(a, syms, stack | {n})
                self.inlined.setdefault(n, set()).add(a)
                kw[a] = va
                errs += ea
                assumes += aa
                continue
            if a not in syms:
                ann = f.__annotations__.get(a)
                if ann not in (float, int, bool):
                    raise R.Unsupported(f"argument {a} has non-scalar annotation {ann}")
                syms[a] = R.sym_for(a, ann)
            kw[a] = syms[a]
        v, ctx = R.run(f, kwargs=kw)
        if v is None:
            raise R.Unsupported("no value")
        self.ck.functions |= ctx.funcs
        return v, errs + [g_ for g_, k_, w_ in ctx.errors], assumes + list(ctx.assumptions)

    def is_bad(self, n):
        """n is a group-level policy rule whose own two-copy obligation is refuted (known or new finding)"""
        if n not in self.bad:
            self.bad[n] = False          # cycle guard
            sg = gt.suffix_group(n)
            if sg and n in self.dag.graph.nodes and not n.endswith("_params") and self.dag.kind(n) == "rule":
                self.bad[n] = self.query(n, sg, oblige=False)[0] == "sat"
        return self.bad[n]

    def const(self, n, g):
        key = (n, g)
        if key in self.memo:
            return self.memo[key]
        self.memo[key] = False       # cycle guard (the graph is acyclic)
        dag = self.dag
        k = dag.kind(n)
        sg = gt.suffix_group(n)
        if k == "input":
            if n.endswith("_id") and n[:-3] in G:
                r = n[:-3] in IMPL[g]
            elif sg:
                r = sg in IMPL[g]                       # documented group-level input (V)
            else:
                r = n in HH_CONSTANT_INPUTS and "hh" in IMPL[g]
        elif k == "grouping":
            r = n[:-3] in IMPL[g]
        elif k == "agg_group":
            r = sg in IMPL[g]
        elif k in ("agg_pid", "skipvec", "other"):
            r = False
        elif k == "paramonly":
            r = True
        elif k == "timeconv":
            ps = dag.parents(n)
            r = len(ps) == 1 and self.const(ps[0], g)
        elif sg and sg in IMPL[g]:
            r = not self.is_bad(n)     # assume/guarantee only while the node's own obligation holds
        else:
            r = self.query(n, g, oblige=False)[0] == "unsat"
        self.memo[key] = r
        return r

    def query(self, n, g, oblige):
        enc = self.encode(n)
        if enc is None:
            return "unknown", None, None
        f, syms, t, pre = enc
        shared = [a for a in syms if self.const(a, g)]
        free = [a for a in syms if a not in shared]
        if not free:
            if oblige:
                self.ck.add_discharged()
            return "unsat", None, (f, syms, free, shared)
        subs = [(syms[a].t, R.sym_for(a + "@j", syms[a].ty).t) for a in free]
        tj = z3.substitute(t, *subs)
        prej = [z3.substitute(R.zbool(c), *subs) for c in pre]
        cons = pre + prej + [t != tj]
        if oblige:
            r, m = self.ck.oblige(f"const {n}[{g}]@{self.date}", cons, 60,
                                  sample=None if len(self.ck.samples) > 8 else {"node": n, "group": g, "date": str(self.date),
                                                                               "shared_args": shared, "free_args": free})
            self.ck.nontrivial.add(("const", f.__name__, g, tuple(sorted(shared))))
        else:
            r, m = self.ck.solve(cons, 30)
        return r, m, (f, syms, free, shared)


def analyse(ck, date, done):
    dag = symdag.Dag(date)
    facts = Facts(ck, dag, date)
    for n in dag.topo():
        sg = gt.suffix_group(n)
        if not sg or n.endswith("_params"):
            continue
        k = dag.kind(n)
        if k == "input":
            continue
        if k in ("rule",):
            r, m, info = facts.query(n, sg, oblige=True)
            if r == "unknown" and info is None:
                ck.add_inconclusive(f"{n}@{date}: rule not encoded")
            elif r == "sat":
                f, syms, free, shared = info
                offending = sorted(a for a in free if not z3.eq(m.eval(syms[a].t, model_completion=True),
                                                                m.eval(R.sym_for(a + "@j", syms[a].ty).t, model_completion=True)))
                sig = (f.__name__, sg, tuple(offending))
                if sig not in done:
                    done.add(sig)
                    report(ck, dag, date, n, f, sg, syms, free, m, offending, sorted(facts.inlined.get(n, ())))
        else:
            ck.obligations += 1
            if facts.const(n, sg):
                ck.discharged += 1
            elif not ck.violation(["derived-not-constant", n], f"{n} ({k}) is not provably constant within {sg} at {date}",
                                  {"kind": "derived", "node": n, "date": str(date)}):
                ck.discharged += 1
    return dag


def report(ck, dag, date, n, f, g, syms, free, m, offending, via=None):
    rows = [{}, {}]
    for a, s in syms.items():
        rows[0][a] = R.model_value(m, s)
        rows[1][a] = R.model_value(m, R.sym_for(a + "@j", s.ty)) if a in free else rows[0][a]
    res = replay_rows(date, n, g, rows)
    # keyed by the rule, the group and *all* its arguments that are not group-level (model independent)
    key = ["not-group-constant", f.__name__, g, ",".join(sorted(free))]
    what = (f"{f.__name__} ({n}) at {date}: two members of one {g} get different values {res['values']} because "
            f"argument(s) {offending} are not {g}-level" + (f" (through {via})" if via else ""))
    if res["fails"]:
        ck.violation(key, what, {"kind": "rule", "date": str(date), "node": n, "group": g, "rows": rows})
    else:
        common.spurious("C15", what + f" (replay: {res})")


def replay_rows(date, n, g, rows):
    """two persons of one g-group through the real API, the rule's arguments supplied as data columns"""
    import pandas as pd
    from gettsim import compute_taxes_and_transfers
    P, F = gt.env(date)
    # the two persons share their g-unit and every unit that g implies; a unit that g does NOT imply (e.g. the
    # household of two jointly assessed spouses) is split when a column of that level differs between them
    def split(h):
        return h not in IMPL[g] and any(gt.suffix_group(a) == h and rows[0][a] != rows[1][a] for a in rows[0])
    cols = {"p_id": [0, 1], "hh_id": [0, 1] if split("hh") else [0, 0]}
    if g != "hh":
        cols[f"{g}_id"] = [0, 0]
    for h in G:
        if h not in ("hh", g) and f"{h}_id" not in cols and split(h):
            cols[f"{h}_id"] = [0, 1]
    for a in rows[0]:
        cols[a] = [rows[0][a], rows[1][a]]
    df = pd.DataFrame(cols)
    for a in rows[0]:
        df[a] = df[a].astype({bool: bool, int: "int64", float: "float64"}[type(rows[0][a])])
    try:
        out = compute_taxes_and_transfers(df, P, F, targets=[n])
        vals = [gt.py(x) for x in out[n].tolist()]
    except Exception as e:
        return {"values": f"raises {type(e).__name__}: {e}"[:200], "fails": False}
    return {"values": vals, "fails": abs(float(vals[0]) - float(vals[1])) > 1e-9}


def _chunk(ck, dates):
    done = set()
    for d in dates:
        dag = analyse(ck, d, done)
        ck.extra["suffixed_nodes"] = ck.extra.get("suffixed_nodes", 0) + sum(1 for n in dag.nodes if gt.suffix_group(n))


def run(tier):
    ck = common.Check("C15", tier)
    dates, st = date_classes(tier)
    chunks = [dates[i::common.JOBS] for i in range(common.JOBS) if dates[i::common.JOBS]] if len(dates) > 1 else [dates]
    if len(chunks) == 1:
        _chunk(ck, chunks[0])
    else:
        common.run_parallel(ck, _chunk, chunks)
    n_nodes = ck.extra.get("suffixed_nodes", 0)
    ck.bounds = {"date_classes": len(dates), "suffixed_nodes_x_dates": n_nodes, "persons": "2 (two-copy query)",
                 "window": "quick: 4 dates; thorough: one representative per distinct environment >= 2015"}
    if st:
        ck.extra["date_exploration"] = {k: v for k, v in st.items() if k != "leaks"}
    ck.assumptions = validity.DESCRIPTION + [
        "unit nesting (same bg => same fg, hh; same eg => same fg, hh; same sn => same ehe; same fg/wthh => same hh) -- proved on the real grouping code in C12",
        "documented group-suffixed inputs are constant within their group (enforced by the interface for hh_id only)"]
    ck.rule = "one obligation per (group-suffixed node, date class); distinct by (python function, group, shared-argument set)"
    ck.explanation = ("Inductive group-constancy over the real DAG: each rule's real source is executed symbolically and z3 must refute two members of one group, "
                      "agreeing on all arguments already proved group-constant, getting different values. sat models are replayed on the real API.")
    return ck.finish()


def replay(path):
    d = json.load(open(path))["replay"]
    if d["kind"] != "rule":
        print("re-run the check")
        return 0
    res = replay_rows(datetime.date.fromisoformat(d["date"]), d["node"], d["group"], d["rows"])
    print(res)
    return 1 if res["fails"] else 0
