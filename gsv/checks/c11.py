"""C11 -- group and person-pointer aggregates equal their mathematical definition.

colsym executes the *real source* of grouped_{count,sum,mean,max,min,any,all}, sum_by_p_id and
join_numpy on symbolic columns (N rows, symbolic group ids / pointers / values) and z3 must refute
any row where the result differs from the textbook definition.  numpy / numpy_groupies calls are
models (gsv.colsym), conformance-tested against the real libraries in every run.  Spec precedence
(automatic < built-in < user) is decided on graphs built by the real loader.
"""
from __future__ import annotations

import datetime
import itertools
import json
import random

import numpy
import numpy_groupies as npg
import z3

from gsv import colsym, common, gt, symdag
from gsv import rulesym as R
from gsv.colsym import SymArray


def T(v, want=None):
    return R.term_of(v, want)


def ints(name, n):
    return SymArray([R.Sym(z3.Int(f"{name}{i}"), int) for i in range(n)], int)


def reals(name, n):
    return SymArray([R.Sym(z3.Real(f"{name}{i}"), float) for i in range(n)], float)


def bools(name, n):
    return SymArray([R.Sym(z3.Bool(f"{name}{i}"), bool) for i in range(n)], bool)


def run_real(f, **kw):
    ctx = R.Ctx()
    v, ctx = R.run(f, kwargs={k: (x._copy() if hasattr(x, "_copy") else x) for k, x in kw.items()}, ctx=ctx)
    return v, ctx


# --------------------------------------------------------------------------------------
def conformance(ck, rnd):
    """the numpy_groupies / numpy models against the real libraries on random concrete arrays"""
    n_ok = 0
    for trial in range(40):
        n = rnd.randint(1, 6)
        gid = numpy.array([rnd.choice([0, 1, 2, 5, 9]) for _ in range(n)])
        for func, mk in (("sum", float), ("sum", int), ("mean", float), ("max", float), ("min", float), ("max", int),
                         ("any", bool), ("all", bool), ("any", int), ("all", int)):
            if mk is float:
                a = numpy.array([rnd.choice([-2.5, 0.0, 1.0, 3.25, 10.0]) for _ in range(n)])
            elif mk is int:
                a = numpy.array([rnd.choice([-2, 0, 1, 3]) for _ in range(n)])
            else:
                a = numpy.array([rnd.random() < 0.5 for _ in range(n)])
            kw = {} if func in ("max", "min") else {"fill_value": 0}
            real = npg.aggregate(gid, a, func=func, **kw)[gid]
            model = colsym.m_aggregate(SymArray([int(x) for x in gid], int), SymArray([x.item() for x in a]), func=func, **kw)[SymArray([int(x) for x in gid], int)]
            got = [_conc(x) for x in model.e]
            if not all(abs(float(g) - float(r)) < 1e-12 for g, r in zip(got, real.tolist())):
                raise common.HarnessError(f"numpy_groupies model disagrees with the library: {func} {gid.tolist()} {a.tolist()} -> {got} vs {real.tolist()}")
            n_ok += 1
    # negative group ids are an error in the library as in the model
    try:
        npg.aggregate(numpy.array([0, -1]), numpy.array([1.0, 2.0]), func="sum", fill_value=0)
        raise common.HarnessError("numpy_groupies accepts negative group ids (model says error)")
    except ValueError:
        pass
    # numpy models used by join_numpy
    for trial in range(30):
        n = rnd.randint(1, 5)
        pk = numpy.array(rnd.sample(range(0, 12), n))
        fk = numpy.array([rnd.choice([-1, *pk.tolist()]) for _ in range(n)])
        m = fk[:, None] == pk
        real = numpy.argmax(numpy.pad(m, ((0, 0), (0, 1)), "constant", constant_values=True), axis=1)
        sm = SymArray(fk.tolist(), int)[:, None] == SymArray(pk.tolist(), int)
        model = colsym.m_argmax(colsym.m_pad(sm, ((0, 0), (0, 1)), "constant", constant_values=True), axis=1)
        if [_conc(x) for x in model.e] != real.tolist():
            raise common.HarnessError("argmax/pad model disagrees with numpy")
        if [_conc(x) for x in colsym.m_isin(SymArray(fk.tolist(), int), SymArray(pk.tolist(), int)).e] != numpy.isin(fk, pk).tolist():
            raise common.HarnessError("isin model disagrees with numpy")
        n_ok += 1
    n_ok += conformance_vocabulary(rnd)
    ck.extra["model_conformance_cases"] = n_ok


def conformance_vocabulary(rnd):
    """models of the numpy vocabulary that a rewritten column function may use (unique/bincount/argsort/lexsort/
    searchsorted/diff/concatenate/ufunc.at/clip): model on concrete columns == numpy"""
    n_ok = 0

    def arr(x):
        return SymArray([v.item() if isinstance(v, numpy.generic) else v for v in x])

    def lst(m, n=None):
        if isinstance(m, SymArray):
            return [_conc(x) for x in m.e]
        k = _conc(m._symlen())
        return [_conc(m[i]) for i in range(k)]

    def same(a, b, what):
        if len(a) != len(b) or any(abs(float(x) - float(y)) > 1e-12 for x, y in zip(a, b)):
            raise common.HarnessError(f"{what}: model {a} vs numpy {list(b)}")
    for trial in range(40):
        n = rnd.randint(1, 5)
        x = numpy.array([rnd.choice([0, 1, 2, 4, 7]) for _ in range(n)])
        y = numpy.array([rnd.choice([0, 1, 3]) for _ in range(n)])
        w = numpy.array([rnd.choice([-1.5, 0.0, 2.0, 3.25]) for _ in range(n)])
        u, idx, inv, cnt = numpy.unique(x, return_index=True, return_inverse=True, return_counts=True)
        mu, midx, minv, mcnt = colsym.m_unique(arr(x), return_index=True, return_inverse=True, return_counts=True)
        same(lst(mu), u.tolist(), f"unique {x.tolist()}")
        same(lst(midx), idx.tolist(), f"unique index {x.tolist()}")
        same(lst(minv), inv.tolist(), f"unique inverse {x.tolist()}")
        same(lst(mcnt), cnt.tolist(), f"unique counts {x.tolist()}")
        same(lst(colsym.m_bincount(arr(x))), numpy.bincount(x).tolist(), f"bincount {x.tolist()}")
        same(lst(colsym.m_bincount(arr(x), weights=arr(w), minlength=3)), numpy.bincount(x, weights=w, minlength=3).tolist(), f"bincount weights {x.tolist()}")
        same(lst(colsym.m_argsort(arr(x))), numpy.argsort(x, kind="stable").tolist(), f"argsort {x.tolist()}")
        same(lst(colsym.m_lexsort((arr(y), arr(x)))), numpy.lexsort((y, x)).tolist(), f"lexsort {x.tolist()} {y.tolist()}")
        if n > 1:
            same(lst(colsym.m_diff(arr(w))), numpy.diff(w).tolist(), "diff")
        same(lst(colsym.m_concatenate([arr(x), arr(y)])), numpy.concatenate([x, y]).tolist(), "concatenate")
        same(lst(colsym.m_append(arr(w), 9.5)), numpy.append(w, 9.5).tolist(), "append")
        sx = numpy.sort(x)
        for side in ("left", "right"):
            same(lst(arr(sx).searchsorted(arr(y), side=side)), numpy.searchsorted(sx, y, side=side).tolist(), f"searchsorted {side}")
        srt = numpy.argsort(x, kind="stable")
        same(lst(arr(x).searchsorted(arr(y), sorter=arr(srt))), numpy.searchsorted(x, y, sorter=srt).tolist(), "searchsorted sorter")
        same(lst(arr(w).clip(max=2.0)), w.clip(max=2.0).tolist(), "clip max")
        same(lst(arr(w).clip(min=0.0)), w.clip(min=0.0).tolist(), "clip min")
        same(lst(colsym.m_clip(arr(w), -1.0, 2.5)), numpy.clip(w, -1.0, 2.5).tolist(), "clip both")
        for coll in ((1, 2), [0, 7], {1, 2, 4}, numpy.array([3, 4])):
            for inv in (False, True):
                same([int(v) for v in lst(colsym.m_isin(arr(x), coll, invert=inv))], [int(v) for v in numpy.isin(x, coll, invert=inv)],
                     f"isin {x.tolist()} {coll!r} invert={inv}")
        ba = numpy.array([rnd.random() < 0.5 for _ in range(n)])
        bb = numpy.array([rnd.random() < 0.5 for _ in range(n)])
        for lab, mod, real in (("bool+bool", arr(ba) + arr(bb), ba + bb), ("bool*bool", arr(ba) * arr(bb), ba * bb), ("bool+True", arr(ba) + True, ba + True),
                               ("bool+1", arr(ba) + 1, ba + 1), ("bool*2.5", arr(ba) * 2.5, ba * 2.5), ("(x<=3)+(x<=4)", (arr(x) <= 3) + (arr(x) <= 4), (x <= 3) + (x <= 4))):
            same([float(v) for v in lst(mod)], [float(v) for v in real.tolist()], f"{lab} {ba.tolist()} {bb.tolist()}")
        pos = numpy.array([rnd.randrange(n) for _ in range(n)])
        for op, uf in (("add", numpy.add), ("max", numpy.maximum), ("min", numpy.minimum)):
            real = numpy.zeros(n)
            uf.at(real, pos, w)
            mod = colsym._m_filled(0)(n)
            colsym._m_ufunc_at(op)(mod, arr(pos), arr(w))
            same(lst(mod), real.tolist(), f"{op}.at {pos.tolist()} {w.tolist()}")
        n_ok += 20
    return n_ok


def _conc(x):
    if R.is_sym(x):
        return R.z3_to_py(z3.simplify(x.t))
    return gt.py(x) if isinstance(x, numpy.generic) else x


# --------------------------------------------------------------------------------------
def members(gid, i):
    return [gid.e[j].t == gid.e[i].t for j in range(len(gid.e))]


def definition(kind, col, gid, i):
    """z3 constraint: `r` is the textbook aggregate for row i  -> returns function r -> Bool"""
    n = len(gid.e)
    mem = members(gid, i)
    if kind == "count":
        return lambda r: r == z3.Sum([z3.If(m, 1, 0) for m in mem])
    vals = [T(x) for x in col.e]
    if kind == "sum":
        if col.dtype == bool:
            return lambda r: r == z3.Sum([z3.If(z3.And(m, v), 1, 0) for m, v in zip(mem, vals)])
        zero = z3.RealVal(0) if col.dtype.kind == "f" else z3.IntVal(0)
        return lambda r: r == z3.Sum([z3.If(m, v, zero) for m, v in zip(mem, vals)])
    if kind == "mean":
        cnt = z3.Sum([z3.If(m, 1, 0) for m in mem])
        tot = z3.Sum([z3.If(m, v, z3.RealVal(0)) for m, v in zip(mem, vals)])
        return lambda r: r * z3.ToReal(cnt) == tot
    if kind in ("max", "min"):
        le = (lambda a, b: a <= b) if kind == "max" else (lambda a, b: a >= b)
        return lambda r: z3.And(z3.And([z3.Implies(m, le(v, r)) for m, v in zip(mem, vals)]),
                                z3.Or([z3.And(m, r == v) for m, v in zip(mem, vals)]))
    if kind == "any":
        tv = [R.truth(x) for x in col.e]
        return lambda r: r == z3.Or([z3.And(m, v) for m, v in zip(mem, tv)])
    if kind == "all":
        tv = [R.truth(x) for x in col.e]
        return lambda r: r == z3.And([z3.Implies(m, v) for m, v in zip(mem, tv)])
    raise ValueError(kind)


def check_grouped(ck, n):
    import _gettsim.aggregation_numpy as A
    gid = ints("g", n)
    pre = [g.t >= 0 for g in gid.e] + [g.t <= 10 ** 9 for g in gid.e]
    cases = [("count", None), ("sum", reals("v", n)), ("sum", ints("v", n)), ("sum", bools("v", n)), ("mean", reals("v", n)),
             ("max", reals("v", n)), ("max", ints("v", n)), ("min", reals("v", n)), ("min", ints("v", n)),
             ("any", bools("v", n)), ("any", ints("v", n)), ("all", bools("v", n)), ("all", ints("v", n)),
             ("max", SymArray([R.Sym(z3.Int(f"d{i}"), int) for i in range(n)], "datetime64[ns]")),
             ("min", SymArray([R.Sym(z3.Int(f"d{i}"), int) for i in range(n)], "datetime64[ns]"))]
    # single-precision columns (survey files converted to save memory): eighths in +-2^15 are exact in float32
    def f32():
        return SymArray([R.Sym(z3.ToReal(z3.Int(f"v32_{i}")) / 8, float) for i in range(n)], "float32")
    pre += [z3.And(z3.Int(f"v32_{i}") >= -2 ** 18, z3.Int(f"v32_{i}") <= 2 ** 18) for i in range(n)]
    cases += [("sum", f32()), ("mean", SymArray(reals("v", n).e, "float32")), ("max", f32()), ("min", f32())]
    for kind, col in cases:
        f = getattr(A, f"grouped_{kind}")
        kw = {"group_id": gid} if kind == "count" else {"column": col, "group_id": gid}
        label = f"grouped_{kind}[{'-' if col is None else col.dtype}] N={n}"
        try:
            v, ctx = run_real(f, **kw)
        except R.Unsupported as e:
            ck.add_inconclusive(f"{label}: {e}")
            continue
        ck.functions |= ctx.funcs
        errs = [g for g, k, w in ctx.errors]
        if v is None:
            ck.violation(["raises", f"grouped_{kind}", str(col.dtype if col is not None else "-")], f"{label} always raises {[k for g, k, w in ctx.errors]}", {"kind": "grouped", "f": kind})
            continue
        # definition per row
        bad = []
        cpre = list(pre)
        if col is not None and col.dtype.kind == "M":
            # dates between 1880-01-01 and 2200-01-01 as day counts (both sides of the epoch)
            cpre += [z3.And(x.t >= -32872, x.t <= 84006) for x in col.e]
        for i in range(n):
            d = definition(kind, col, gid, i)
            r = v.e[i]
            rt = R.truth(r) if kind in ("any", "all") else T(r, float if kind == "mean" else None)
            bad.append(z3.Not(d(rt)))
        r, m = ck.oblige(f"def {label}", cpre + [z3.Or(bad)], 120,
                         sample={"function": f"grouped_{kind}", "dtype": str(col.dtype) if col is not None else None, "rows": n,
                                 "claim": "result[i] == aggregate over {j : group_id[j] == group_id[i]} for every row i"})
        ck.nontrivial.add(("grouped", kind, str(col.dtype) if col is not None else "-", n))
        if r == "sat":
            report_grouped(ck, kind, col, gid, m, n)
        r2, m2 = ck.oblige(f"noerr {label}", cpre + [z3.Or(errs)] if errs else [z3.BoolVal(False)], 60)
        if r2 == "sat":
            report_grouped(ck, kind, col, gid, m2, n, raises=True)
    # dtype gates (concrete): wrong dtypes raise TypeError
    ck.obligations += 1
    ok = True
    for f, args in ((A.grouped_sum, (numpy.array([1.0]), numpy.array([0.5]))), (A.grouped_mean, (numpy.array([1]), numpy.array([0]))),
                    (A.grouped_any, (numpy.array([1.5]), numpy.array([0]))), (A.grouped_max, (numpy.array([True]), numpy.array([0])))):
        try:
            f(*args)
            ok = False
        except TypeError:
            pass
    if ok:
        ck.discharged += 1
    else:
        ck.violation(["dtype-gate"], "an aggregation accepts a column / id dtype it documents as invalid", {"kind": "gate"})


def report_grouped(ck, kind, col, gid, m, n, raises=False):
    import _gettsim.aggregation_numpy as A
    g = numpy.array([R.model_value(m, x) for x in gid.e])
    args = [g]
    if col is not None:
        vals = [R.model_value(m, x) for x in col.e]
        a = numpy.array(vals, dtype=col.dtype if col.dtype.kind != "M" else "int64")
        if col.dtype.kind == "M":
            a = a.astype("datetime64[D]").astype(col.dtype)
        args = [a, g]
    try:
        out = getattr(A, f"grouped_{kind}")(*args)
        res = out.tolist()
    except Exception as e:   # noqa: BLE001
        res = f"raises {type(e).__name__}"
    want = reference_grouped(kind, args)
    fails = (isinstance(res, str)) if raises else (not isinstance(res, str) and not _close_list(res, want))
    what = f"grouped_{kind}({[a.tolist() for a in args]}) = {res}, definition gives {want}"
    if fails or (isinstance(res, str) and want is not None):
        ck.violation(["grouped", kind, str(col.dtype) if col is not None else "-"], what, {"kind": "grouped", "f": kind, "args": [a.tolist() for a in args], "dtype": str(col.dtype) if col is not None else None})
    else:
        common.spurious("C11", what)


def reference_grouped(kind, args):
    g = args[-1]
    out = []
    for i in range(len(g)):
        idx = [j for j in range(len(g)) if g[j] == g[i]]
        if kind == "count":
            out.append(len(idx))
            continue
        vals = [args[0][j] for j in idx]
        if kind == "sum":
            out.append(sum(int(v) if isinstance(v, (bool, numpy.bool_)) else v for v in vals))
        elif kind == "mean":
            out.append(sum(vals) / len(vals))
        elif kind == "max":
            out.append(max(vals))
        elif kind == "min":
            out.append(min(vals))
        elif kind == "any":
            out.append(any(bool(v) for v in vals))
        elif kind == "all":
            out.append(all(bool(v) for v in vals))
    return [x.item() if hasattr(x, "item") else x for x in out]


def _close_list(a, b):
    try:
        return all(abs(float(numpy.datetime64(x).astype("int64") if isinstance(x, (numpy.datetime64,)) else x) -
                       float(numpy.datetime64(y).astype("int64") if isinstance(y, (numpy.datetime64,)) else y)) <= 1e-9 for x, y in zip(a, b))
    except Exception:   # noqa: BLE001
        return list(a) == list(b)


# --------------------------------------------------------------------------------------
# person labels: the running number, sparse unsorted labels, and a non-identity PERMUTATION of 0..n-1 (first / last /
# min / max look like a running number although the rows are not in that order)
LABELS = {2: [[0, 1], [7, 3], [1, 0]], 3: [[0, 1, 2], [7, 3, 11], [40, 0, 12], [2, 0, 1], [0, 2, 1]],
          4: [[0, 1, 2, 3], [7, 3, 11, 5], [40, 0, 12, 33], [1, 3, 0, 2], [0, 2, 1, 3]]}


def check_sum_by_p_id(ck, n):
    import _gettsim.aggregation_numpy as A
    for labs in LABELS[n]:
        store = SymArray(list(labs), int)
        ptr = ints("ptr", n)
        valid = [z3.Or([p.t < 0] + [p.t == q for q in labs]) for p in ptr.e]
        for col in (reals("v", n), ints("v", n), bools("v", n)):
            label = f"sum_by_p_id[{col.dtype}] p_id={labs}"
            try:
                v, ctx = run_real(A.sum_by_p_id, column=col, p_id_to_aggregate_by=ptr, p_id_to_store_by=store)
            except R.Unsupported as e:
                ck.add_inconclusive(f"{label}: {e}")
                continue
            ck.functions |= ctx.funcs
            errs = [g for g, k, w in ctx.errors]
            bad = []
            for i in range(n):
                if col.dtype == bool:
                    spec = z3.Sum([z3.If(z3.And(ptr.e[j].t == labs[i], col.e[j].t), 1, 0) for j in range(n)])
                else:
                    zero = z3.RealVal(0) if col.dtype.kind == "f" else z3.IntVal(0)
                    spec = z3.Sum([z3.If(ptr.e[j].t == labs[i], col.e[j].t, zero) for j in range(n)])
                bad.append(T(v.e[i]) != spec)
            r, m = ck.oblige(f"def {label}", valid + [z3.Or(bad)], 120,
                             sample={"function": "sum_by_p_id", "p_id": labs, "rows": n,
                                     "claim": "out[i] == sum of column[j] over {j : pointer[j] == p_id[i]}; negative pointers ignored"})
            ck.nontrivial.add(("sum_by_p_id", str(col.dtype), tuple(labs)))
            if r == "sat":
                report_pid(ck, col, ptr, labs, m, "def")
            r2, m2 = ck.oblige(f"valid-pointers-do-not-raise {label}", valid + ([z3.Or(errs)] if errs else [z3.BoolVal(False)]), 60)
            if r2 == "sat":
                report_pid(ck, col, ptr, labs, m2, "raises")
            # a non-negative pointer to a missing person must raise (never silently credited / dropped)
            invalid = z3.Or([z3.And(p.t >= 0, z3.And([p.t != q for q in labs])) for p in ptr.e])
            r3, m3 = ck.oblige(f"invalid-pointer-raises {label}", [invalid, z3.Not(z3.Or(errs)) if errs else z3.BoolVal(True)], 60)
            if r3 == "sat":
                report_pid(ck, col, ptr, labs, m3, "silent")


def report_pid(ck, col, ptr, labs, m, mode):
    import _gettsim.aggregation_numpy as A
    p = numpy.array([R.model_value(m, x) for x in ptr.e])
    c = numpy.array([R.model_value(m, x) for x in col.e], dtype=col.dtype)
    try:
        out = A.sum_by_p_id(c, p, numpy.array(labs)).tolist()
    except Exception as e:   # noqa: BLE001
        out = f"raises {type(e).__name__}"
    want = [sum((int(c[j]) if col.dtype == bool else c[j]) for j in range(len(p)) if p[j] == q) for q in labs]
    want = [w.item() if hasattr(w, "item") else w for w in want]
    if mode == "def":
        fails = not isinstance(out, str) and not _close_list(out, want)
    elif mode == "raises":
        fails = isinstance(out, str)
    else:
        fails = not isinstance(out, str)
    what = f"sum_by_p_id(column={c.tolist()}, pointer={p.tolist()}, p_id={labs}) = {out}; definition {want} ({mode})"
    if fails:
        ck.violation(["sum_by_p_id", mode, str(col.dtype)], what, {"kind": "pid", "col": c.tolist(), "ptr": p.tolist(), "labs": labs, "dtype": str(col.dtype), "mode": mode})
    else:
        common.spurious("C11", what)


def check_join(ck, n):
    from _gettsim.shared import join_numpy
    fk, pk = ints("fk", n), ints("pk", n)
    for tgt, default in ((reals("t", n), 0.0), (ints("t", n), 0), (bools("t", n), False)):
        label = f"join_numpy[{tgt.dtype}] N={n}"
        try:
            v, ctx = run_real(join_numpy, foreign_key=fk, primary_key=pk, target=tgt, value_if_foreign_key_is_missing=default)
        except R.Unsupported as e:
            ck.add_inconclusive(f"{label}: {e}")
            continue
        ck.functions |= ctx.funcs
        errs = R.zbool(R.zor(*[g for g, k, w in ctx.errors]))
        pkd = z3.Distinct([p.t for p in pk.e]) if n > 1 else z3.BoolVal(True)
        pknn = [p.t >= 0 for p in pk.e]
        fkok = [z3.Or([f.t < 0] + [f.t == p.t for p in pk.e]) for f in fk.e]
        bad = []
        for i in range(n):
            dflt = R.lift(default)[0]
            e = dflt
            for j in range(n):
                e = z3.If(fk.e[i].t == pk.e[j].t, R.lift(tgt.e[j])[0], e)
            spec = z3.If(fk.e[i].t < 0, dflt, e)
            got = R.lift(v.e[i])[0]
            bad.append(got != spec if got.sort() == spec.sort() else T(v.e[i], float) != (z3.ToReal(spec) if spec.sort() == z3.IntSort() else spec))
        obs = [("def", [pkd, *pknn, *fkok, z3.Not(errs), z3.Or(bad)]),
               ("valid-keys-do-not-raise", [pkd, *pknn, *fkok, errs]),
               ("duplicate-primary-keys-raise", [z3.Not(pkd), z3.Not(errs)]),
               ("invalid-foreign-key-raises", [pkd, z3.Not(z3.And(fkok)), z3.Not(errs)])]
        for lab, cons in obs:
            r, m = ck.oblige(f"{lab} {label}", cons, 120, sample={"function": "join_numpy", "rows": n, "claim": lab, "dtype": str(tgt.dtype)})
            ck.nontrivial.add(("join", lab, str(tgt.dtype), n))
            if r == "sat":
                report_join(ck, fk, pk, tgt, default, m, lab)


def report_join(ck, fk, pk, tgt, default, m, lab):
    from _gettsim.shared import join_numpy
    f = numpy.array([R.model_value(m, x) for x in fk.e])
    p = numpy.array([R.model_value(m, x) for x in pk.e])
    t = numpy.array([R.model_value(m, x) for x in tgt.e], dtype=tgt.dtype)
    try:
        out = join_numpy(f, p, t, default).tolist()
    except Exception as e:   # noqa: BLE001
        out = f"raises {type(e).__name__}"
    want = []
    for x in f:
        hit = [t[j] for j in range(len(p)) if p[j] == x]
        want.append(default if x < 0 or not hit else hit[0].item())
    if lab == "def":
        fails = not isinstance(out, str) and not _close_list(out, want)
    elif lab == "valid-keys-do-not-raise":
        fails = isinstance(out, str)
    else:
        fails = not isinstance(out, str)
    what = f"join_numpy(fk={f.tolist()}, pk={p.tolist()}, target={t.tolist()}) = {out}; expected {want} ({lab})"
    if fails:
        ck.violation(["join_numpy", lab, str(tgt.dtype)], what, {"kind": "join", "fk": f.tolist(), "pk": p.tolist(), "t": t.tolist(), "default": default, "dtype": str(tgt.dtype), "lab": lab})
    else:
        common.spurious("C11", what)


# --------------------------------------------------------------------------------------
def check_precedence(ck, n):
    """automatic sum < built-in spec < user spec, on graphs built by the real loader"""
    date = datetime.date(2023, 7, 1)
    gid = ints("g", n)
    pre = [g.t >= 0 for g in gid.e]
    cases = [
        ("automatic sum", "bruttolohn_m_hh", "bruttolohn_m", reals("v", n), "sum", {}),
        ("built-in spec", "anz_erwachsene_hh", "erwachsen", bools("v", n), "sum", {}),
        ("user spec over automatic sum", "bruttolohn_m_hh", "bruttolohn_m", reals("v", n), "max",
         {"bruttolohn_m_hh": {"source_col": "bruttolohn_m", "aggr": "max"}}),
        ("user spec over built-in spec", "anz_erwachsene_hh", "erwachsen", bools("v", n), "any",
         {"anz_erwachsene_hh": {"source_col": "erwachsen", "aggr": "any"}}),
        ("user spec with mean", "eink_selbst_m_hh", "eink_selbst_m", reals("v", n), "mean",
         {"eink_selbst_m_hh": {"source_col": "eink_selbst_m", "aggr": "mean"}}),
    ]
    for lab, tgt, src, col, kind, specs in cases:
        try:
            dag = symdag.Dag(date, targets=[tgt], aggregate_by_group_specs=specs, rounding=False)
            ctx = R.Ctx()
            v = symdag.eval_cols(dag, tgt, {src: col, "hh_id": gid}, {}, ctx)
        except R.Unsupported as e:
            ck.add_inconclusive(f"precedence {lab}: {e}")
            continue
        bad = []
        for i in range(n):
            d = definition(kind, col, gid, i)
            r = v.e[i]
            rt = R.truth(r) if kind in ("any", "all") else T(r, float if kind == "mean" else None)
            bad.append(z3.Not(d(rt)))
        r, m = ck.oblige(f"precedence: {lab} ({tgt} = {kind} of {src})", pre + [z3.Or(bad)], 60,
                         sample={"case": lab, "target": tgt, "expected": f"{kind} of {src} by hh_id", "rows": n})
        ck.nontrivial.add(("precedence", lab))
        if r == "sat":
            g = numpy.array([R.model_value(m, x) for x in gid.e])
            c = numpy.array([R.model_value(m, x) for x in col.e])
            try:
                out = numpy.asarray(dag.funcs[tgt](**{src: c, "hh_id": g})).tolist()
            except Exception as e:   # noqa: BLE001
                out = f"raises {type(e).__name__}"
            want = reference_grouped(kind, [c, g])
            if isinstance(out, str) or not _close_list(out, want):
                ck.violation(["precedence", lab], f"{tgt} with specs {specs}: {out}, expected {kind}: {want}", {"kind": "prec", "lab": lab})
            else:
                common.spurious("C11", f"precedence {lab}")
    builtin_specs(ck, date, min(n, 3))
    # result type rule: finite table, evaluated exhaustively on the real function
    from _gettsim.functions_loader import _select_return_type
    ck.obligations += 1
    ok = True
    for aggr, ty in itertools.product(["sum", "mean", "max", "min", "any", "all"], [float, int, bool]):
        want = bool if (ty is int and aggr in ("any", "all")) else (int if (ty is bool and aggr == "sum") else ty)
        if _select_return_type(aggr, ty) is not want:
            ok = False
    if ok:
        ck.discharged += 1
    else:
        ck.violation(["return-type-rule"], "result type rule of aggregations deviates from the documented table", {"kind": "rt"})
    # person-pointer aggregates other than sum are loud
    import _gettsim.aggregation_numpy as A
    for nm in ("mean_by_p_id", "max_by_p_id", "min_by_p_id", "any_by_p_id", "all_by_p_id"):
        ck.obligations += 1
        col = reals("v", 2) if nm in ("mean_by_p_id", "max_by_p_id", "min_by_p_id") else bools("v", 2)
        v, ctx = run_real(getattr(A, nm), column=col, p_id_to_aggregate_by=ints("p", 2), p_id_to_store_by=SymArray([0, 1], int))
        if v is None and any(k == "NotImplementedError" for g, k, w in ctx.errors):
            ck.discharged += 1
        else:
            ck.violation(["not-loud", nm], f"{nm} returns a value instead of raising NotImplementedError", {"kind": "loud", "f": nm})


def builtin_specs(ck, date, n):
    """every built-in group aggregation spec yields exactly the aggregation it names -- also where the
    column name equals <source>_<group>, i.e. where the automatic sum would apply without the spec.
    Also with a USER spec that overrides one built-in key: the user's aggregation for that key, the built-in one
    for every other key (its sibling levels included).  The expected specs are a snapshot taken before any graph
    with user specs is built (a loader that mutates the built-in spec objects must not hide behind its own
    mutation)."""
    import copy
    from _gettsim.config import TYPES_INPUT_VARIABLES
    from _gettsim.functions_loader import load_aggregation_dict
    specs = copy.deepcopy(load_aggregation_dict("aggregate_by_group"))
    P, F = gt.env(date)
    usable = {k: v for k, v in specs.items() if v["aggr"] == "count" or v.get("source_col") in F or v.get("source_col") in TYPES_INPUT_VARIABLES}
    # (1) a user spec overriding one built-in key of a family with several levels
    fam = sorted(k for k, v in usable.items() if v.get("source_col") == "alleinerz")
    if len(fam) >= 2:
        over = fam[-1]
        flipped = "all" if usable[over]["aggr"] == "any" else "any"
        user = {over: {"source_col": "alleinerz", "aggr": flipped}}
        try:
            dag_u = symdag.Dag(date, targets=fam, rounding=False, aggregate_by_group_specs=user)
            expected = {k: (user[k] if k in user else usable[k]) for k in fam}
            _specs_yield(ck, dag_u, expected, n, f" [user spec overrides {over}]", dedupe=False)
        except Exception as e:   # noqa: BLE001
            ck.add_inconclusive(f"user override of {over}: graph not built ({type(e).__name__}: {e})"[:200])
    # (2) no user specs (after (1): the built-in specs must be what they were)
    try:
        dag = symdag.Dag(date, targets=sorted(usable), rounding=False)
    except Exception as e:   # noqa: BLE001
        ck.add_inconclusive(f"built-in specs: graph not built ({type(e).__name__}: {e})"[:200])
        return
    _specs_yield(ck, dag, usable, n, "", dedupe=True)


def _specs_yield(ck, dag, usable, n, tag, dedupe):
    seen = set()
    for name, spec in sorted(usable.items()):
        g = gt.suffix_group(name)
        kind = spec["aggr"]
        src = spec.get("source_col")
        sig = (kind, g, None if src is None else dag.return_type(src))
        shadow = src is not None and name == f"{src}_{g}"
        if dedupe and sig in seen and not shadow:
            continue          # same aggregation kind / group / source type already proved
        seen.add(sig)
        gid = ints("g", n)
        pre = [x.t >= 0 for x in gid.e]
        if kind == "count":
            col, frontier = None, {f"{g}_id": gid}
        else:
            ty = dag.return_type(src) or float
            col = {float: reals, int: ints, bool: bools}[ty]("v", n)
            frontier = {src: col, f"{g}_id": gid}
        try:
            ctx = R.Ctx()
            v = symdag.eval_cols(dag, name, frontier, {}, ctx)
        except R.Unsupported as e:
            ck.add_inconclusive(f"built-in spec {name}: {e}")
            continue
        bad = []
        for i in range(n):
            d = definition(kind, col, gid, i)
            r = v.e[i]
            if kind in ("any", "all"):
                # a truth value: the number must be exactly 0 / 1 (a group *sum* of 2 is not `any`)
                bt = z3.Bool(f"__def{i}")
                bad.append(z3.And(d(bt), R.num(r)[0] != z3.If(bt, 1, 0)))
            else:
                bad.append(z3.Not(d(T(r, float if kind == "mean" else None))))
        r, m = ck.oblige(f"built-in spec {name} = {kind}({src}) by {g}{tag}", pre + [z3.Or(bad)], 60,
                         sample=None if len(ck.samples) > 10 else {"spec": name, "expected": f"{kind} of {src} by {g}_id", "rows": n})
        ck.nontrivial.add(("builtin", name))
        if r == "sat":
            gg = numpy.array([R.model_value(m, x) for x in gid.e])
            kw = {f"{g}_id": gg}
            if col is not None:
                kw[src] = numpy.array([R.model_value(m, x) for x in col.e])
            try:
                out = numpy.asarray(dag.funcs[name](**kw)).tolist()
            except Exception as e:   # noqa: BLE001
                out = f"raises {type(e).__name__}"
            want = reference_grouped(kind, [kw[src], gg] if col is not None else [gg])
            if isinstance(out, str) or not _close_list(out, want):
                ck.violation(["builtin-spec", name], f"{name}{tag}: the spec says {kind}({src}) but the column is {out}, expected {want} for {({k: v.tolist() for k, v in kw.items()})}",
                             {"kind": "prec", "lab": name})
            else:
                common.spurious("C11", f"built-in spec {name}")


def _restrict(kw, rows, keep_ptr):
    """the columns of the rows `rows`; pointers of the rows not in keep_ptr are cut (-1)"""
    out = {}
    for a, v in kw.items():
        if not isinstance(v, SymArray):
            out[a] = v
        elif a.startswith("p_id_"):
            out[a] = SymArray([v.e[r] if r in keep_ptr else -1 for r in rows], v.dtype)
        else:
            out[a] = SymArray([v.e[r] for r in rows], v.dtype)
    return out


def check_lookup_rules(ck, n):
    """the whole-column look-up rules (skip_vectorization): the value of row i is the value computed from row i and
    the row its pointer names alone -- a look-up goes to exactly the person pointed to, wherever that row is"""
    from gsv.checks import c01
    for name, f in sorted(gt.all_internal_functions().items()):
        if not gt.is_skipvec(f):
            continue
        for running in (False, True):
            label = f"look-up rule {name}{' [p_id 0..n-1]' if running else ''} N={n}"
            try:
                kw, pre = c01.skipvec_args(f, n, running=running)
                ptrs = [a for a in kw if a.startswith("p_id_")]
                if len(ptrs) != 1 or "p_id" not in kw:
                    ck.add_inconclusive(f"{label}: not of the form (p_id, one pointer, columns)")
                    break
                ptr, labs = kw[ptrs[0]], [int(x) for x in kw["p_id"].e]
                full, c1 = run_real(f, **kw)
                if full is None:
                    ck.add_inconclusive(f"{label}: raises on every path")
                    continue
                errs = [g for g, k, w in c1.errors]
                bad, cases = [], []
                for i in range(n):
                    for j in [None] + list(range(n)):
                        rows = [i] if j in (None, i) else [i, j]
                        cond = ptr.e[i].t < 0 if j is None else ptr.e[i].t == labs[j]
                        small, c2 = run_real(f, **_restrict(kw, rows, {i}))
                        if small is None:
                            continue
                        errs += [z3.And(cond, g) for g, k, w in c2.errors]
                        bad.append(z3.And(cond, z3.Not(R.values_equal(full.e[i], small.e[0]))))
                        cases.append((i, rows))
                ck.functions |= c1.funcs
            except R.Unsupported as e:
                ck.add_inconclusive(f"{label}: {e}")
                continue
            r, m = ck.oblige(f"{label}: row i == rule on (row i, row pointed to)", list(pre) + ([z3.Not(z3.Or(errs))] if errs else []) + [z3.Or(bad)], 120,
                             sample={"function": name, "rows": n, "claim": "F(x)[i] == F(x restricted to row i and the row its pointer names)[0]"})
            ck.nontrivial.add(("lookup-rule", name, running, n))
            if r == "sat":
                conc = {k: (numpy.array([R.model_value(m, x) for x in v.e], dtype=v.dtype) if isinstance(v, SymArray) else v) for k, v in kw.items()}
                what = lookup_rule_differs(f, conc)
                if what:
                    ck.violation(["lookup-rule", name], f"{label}: {what}", {"kind": "lookup-rule", "name": name, "args": {k: v.tolist() for k, v in conc.items() if isinstance(v, numpy.ndarray)}})
                else:
                    common.spurious("C11", f"{label}: model does not reproduce")


def lookup_rule_differs(f, conc):
    """real function on the whole population vs on (row i, row pointed to) for every i"""
    ptrn = [a for a in conc if a.startswith("p_id_")][0]

    def call(kw):
        try:
            return numpy.asarray(f(**kw)).tolist()
        except Exception as e:   # noqa: BLE001
            return f"raises {type(e).__name__}: {e}"[:100]

    full = call(conc)
    n = len(conc["p_id"])
    for i in range(n):
        js = [j for j in range(n) if conc["p_id"][j] == conc[ptrn][i] and j != i]
        rows = [i] + js[:1]
        kw = {}
        for a, v in conc.items():
            if isinstance(v, numpy.ndarray):
                kw[a] = v[rows].copy()
                if a == ptrn and len(rows) > 1:
                    kw[a][1] = -1
            else:
                kw[a] = v
        small = call(kw)
        if isinstance(small, str) and isinstance(full, str):
            continue
        if isinstance(small, str) or isinstance(full, str) or abs(float(full[i]) - float(small[0])) > 1e-9:
            return f"row {i} of {({k: v.tolist() for k, v in conc.items() if isinstance(v, numpy.ndarray)})}: whole population {full} but alone with the row it points to {small}"
    return None


def run(tier):
    ck = common.Check("C11", tier)
    rnd = random.Random(common.SEED)
    conformance(ck, rnd)
    sizes = [2, 3] if tier == "quick" else [2, 3, 4]
    for n in sizes:
        check_grouped(ck, n)
        check_sum_by_p_id(ck, n)
        check_join(ck, n)
        check_lookup_rules(ck, n)
    if tier == "quick":
        # pointer code is cheap enough for 4 rows on every change (fast paths keyed on first/last row need >= 4)
        check_sum_by_p_id(ck, 4)
        check_join(ck, 4)
    check_precedence(ck, 3 if tier == "quick" else 4)
    ck.bounds = {"rows": sizes, "group_ids": "symbolic integers 0..10^9 (unsorted, sparse, non-contiguous, survey-style long ids)", "values": "unconstrained reals / ints / bools / day-dates",
                 "p_id labels for sum_by_p_id": "3 concrete label vectors per N (sorted, unsorted sparse); pointers symbolic",
                 "outside": "N>4 rows; numpy_groupies internals (modelled by its contract, conformance-tested)"}
    ck.stubs = ["numpy_groupies.aggregate(group_idx, a, func, fill_value) -> contract model", "numpy.zeros_like/isin/unique/pad/argmax/take/fancy indexing/astype -> models",
                "datetime64 columns as integer day counts (order preserving), dates 1880-01-01..2200-01-01"]
    ck.assumptions = ["group ids are non-negative (negative ids raise in numpy_groupies and in the model)"]
    ck.rule = "one obligation per (function, dtype, N, claim); distinct by that tuple"
    ck.explanation = ("Real aggregation / pointer-sum / join source executed on symbolic columns; z3 refutes any row that differs from the mathematical definition, "
                      "any valid input that raises and any invalid key that is accepted silently; precedence of aggregation specs decided on real loader graphs.")
    return ck.finish()


def replay(path):
    d = json.load(open(path))["replay"]
    import _gettsim.aggregation_numpy as A
    if d["kind"] == "grouped":
        args = [numpy.array(a) for a in d["args"]]
        if d.get("dtype") and len(args) == 2:
            args[0] = args[0].astype(d["dtype"]) if "datetime" not in d["dtype"] else args[0].astype("datetime64[D]").astype(d["dtype"])
        try:
            out = getattr(A, f"grouped_{d['f']}")(*args).tolist()
        except Exception as e:   # noqa: BLE001
            print("raises", e)
            return 1
        want = reference_grouped(d["f"], args)
        print(out, want)
        return 0 if _close_list(out, want) else 1
    if d["kind"] == "lookup-rule":
        f = gt.all_internal_functions()[d["name"]]
        what = lookup_rule_differs(f, {k: numpy.array(v) for k, v in d["args"].items()})
        print(what)
        return 1 if what else 0
    if d["kind"] == "pid":
        c = numpy.array(d["col"], dtype=d["dtype"])
        try:
            out = A.sum_by_p_id(c, numpy.array(d["ptr"]), numpy.array(d["labs"])).tolist()
        except Exception as e:   # noqa: BLE001
            out = f"raises {type(e).__name__}"
        print(out)
        want = [sum((int(c[j]) if d["dtype"] == "bool" else c[j]) for j in range(len(c)) if d["ptr"][j] == q) for q in d["labs"]]
        if d["mode"] == "def":
            return 0 if (not isinstance(out, str) and _close_list(out, want)) else 1
        return 1 if (isinstance(out, str)) == (d["mode"] == "raises") else 0
    print("re-run the check")
    return 0
