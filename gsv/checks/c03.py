"""C03 -- each column value equals the scalar rule applied to that row; dtype by declaration.

Every active scalar rule is executed symbolically with a *dynamic Python type per path*.
The real `_vectorize_func` wrapper is inspected for how numpy.vectorize determines the output
dtype (``otypes`` fixed, or inferred from the first row).  z3 decides:

  (a) truncation / coercion: two valid rows x1, x2 such that the dtype that x1 induces cannot hold
      f(x2) exactly (int column + fractional value; bool column + value outside {0,1});
  (b) data-dependent dtype: two valid rows whose results have different Python types (weaker class,
      reported separately);
  (c) declared type: a feasible path whose value is not representable in the declared dtype when
      ``otypes`` is fixed by declaration.

Every model is replayed through the real compute_taxes_and_transfers (both row orders).
"""
from __future__ import annotations

import datetime
import inspect
import json
import random

import numpy
import z3

from gsv import common, gt, validity
from gsv import rulesym as R


_LOADED = {}


def production_functions(date):
    """the function dictionary exactly as compute_taxes_and_transfers builds it for this date (real
    load_and_check_functions on the environment's functions): the wrappers that production calls"""
    if date not in _LOADED:
        from _gettsim.config import DEFAULT_TARGETS, TYPES_INPUT_VARIABLES
        from _gettsim.functions_loader import load_and_check_functions
        P, F = gt.env(date)
        try:
            fno, _ = load_and_check_functions(functions_raw=F, targets=list(DEFAULT_TARGETS), data_cols=list(TYPES_INPUT_VARIABLES),
                                              aggregate_by_group_specs={}, aggregate_by_p_id_specs={})
        except Exception:   # noqa: BLE001 -- e.g. a default target missing at an early date: fall back per rule
            fno = {}
        _LOADED[date] = fno
    return _LOADED[date]


UNVECTORIZED = "called on whole columns (no numpy.vectorize)"


def production_wrapper(f, date, name):
    """the vectorised wrapper production calls for rule f (loader's own dictionary); a fresh real wrapper otherwise"""
    from _gettsim.functions_loader import _vectorize_func
    w = production_functions(date).get(name) if (date is not None and name is not None) else None
    if w is not None:
        try:
            vf = inspect.getclosurevars(w).nonlocals.get("func_vec")
        except TypeError:
            vf = None
        if isinstance(vf, numpy.vectorize) and getattr(vf.pyfunc, "__code__", None) is getattr(f, "__code__", None):
            return w
        if getattr(w, "__code__", None) is getattr(f, "__code__", None):
            return w           # handed through unchanged
    return _vectorize_func(f)


def vectorize_otypes(f, date=None, name=None):
    """otypes of the numpy.vectorize object that production uses for rule f (None = inferred from the first row):
    taken from the wrapper in the loader's own function dictionary; only if the rule is not in it (or no date is
    given) from a fresh call of the real _vectorize_func"""
    from _gettsim.functions_loader import _vectorize_func
    w = production_functions(date).get(name) if (date is not None and name is not None) else None
    vf = None
    if w is not None:
        try:
            vf = inspect.getclosurevars(w).nonlocals.get("func_vec")
        except TypeError:
            vf = None
        if isinstance(vf, numpy.vectorize) and getattr(vf.pyfunc, "__code__", None) is not getattr(f, "__code__", None):
            vf = None          # another implementation is registered under that name at this date
    if not isinstance(vf, numpy.vectorize):
        w = _vectorize_func(f)
        cv = inspect.getclosurevars(w).nonlocals
        vf = cv.get("func_vec")
    if not isinstance(vf, numpy.vectorize):
        # the loader hands the rule to production without numpy.vectorize (whole-column call): no otypes at all;
        # the wrapper value equation and the declared-dtype obligation decide
        return UNVECTORIZED
    if vf.otypes is None:
        return None
    from gsv.colsym import otype_to_py
    return otype_to_py(vf.otypes[0])


def date_classes(tier):
    if tier == "quick":
        return list(gt.QUICK_DATES)
    # every distinct function set / parameter environment: one representative per fingerprint
    from gsv import dateprobe
    regs, st = dateprobe.explore(datetime.date(1980, 1, 1), max(dateprobe.yaml_seed_dates()) + datetime.timedelta(days=366),
                                 check_endpoints=False)
    seen, out = set(), []
    for r in regs:
        if r.fp and r.fp not in seen:
            seen.add(r.fp)
            out.append(r.rep)
    return out


def type_guard(v, T):
    g = R.tyguards(v).get(T, False)
    return R.zbool(g)


def analyse_rule(ck, name, f, P, date, done, rnd):
    pyname = f.__name__
    try:
        kw, syms = gt.rule_args(f, P, widen=True)
    except R.Unsupported as e:
        ck.not_encoded[pyname] = str(e)
        return
    try:
        v, ctx = R.run(f, kwargs=kw)
    except R.Unsupported as e:
        ck.not_encoded[pyname] = str(e)
        return
    ck.functions |= ctx.funcs
    if v is None:
        # every path raises with the parameters of this date (e.g. a parameter that starts later): computability is
        # C08's subject, there is no value to compare here
        ck.extra.setdefault("raises_on_every_path", {})[f"{pyname}@{date}"] = sorted({k for g, k, w in ctx.errors})[:3]
        return
    if not (R.is_sym(v) or R.pytype(v) is not None):
        ck.not_encoded[pyname] = "no scalar result"
        return
    ot = vectorize_otypes(f, date, name)
    term = R.lift(v)[0]
    sig = (pyname, str(term), str(R.tyguards(v)), ot)
    if sig in done:
        return
    done.add(sig)
    # --- encoder validation on concrete points (guards the trusted base, not the verdict) ---
    encoder_validation(ck, f, kw, syms, v, ctx, rnd)
    pre = validity.inputs(syms) + list(ctx.assumptions)
    errs = [g for g, k, w in ctx.errors]
    noerr = [z3.Not(z3.Or(errs))] if errs else []
    guards = R.tyguards(v)
    declared = f.__annotations__.get("return")
    val = R.num(v)[0] if (R.is_sym(v) or R.pytype(v) is not bool) else R.num(v)[0]
    val_real = val if val.sort() == z3.RealSort() else z3.ToReal(val)

    def rename(tag):
        subs = [(s.t, R.sym_for(a + tag, s.ty).t) for a, s in syms.items()]
        return lambda e: z3.substitute(e, *subs) if subs else e

    r1, r2 = rename("@1"), rename("@2")

    def both(c1, c2):
        return [r1(c) for c in pre + noerr + c1] + [r2(c) for c in pre + noerr + c2]

    # --- value equation through the REAL vectorize wrapper on a 2-row column ------------------------
    wrapper_value_equation(ck, name, f, P, date, syms, v, term, pre, noerr, r1, r2)
    if ot == UNVECTORIZED:
        ck.nontrivial.add(("unvectorized", pyname))
    elif ot is None:
        # dtype inferred from the first row
        cases = []
        if float in guards and (int in guards or bool in guards):
            if int in guards:
                cases.append(("truncation:int", [type_guard(v, int)], [type_guard(v, float), z3.Not(z3.IsInt(val_real))]))
            if bool in guards:
                cases.append(("coercion:bool", [type_guard(v, bool)],
                              [z3.Or(type_guard(v, float), type_guard(v, int)), val_real != 0, val_real != 1]))
        elif int in guards and bool in guards:
            cases.append(("coercion:bool", [type_guard(v, bool)], [type_guard(v, int), val_real != 0, val_real != 1]))
        for label, c1, c2 in cases:
            r, m = ck.oblige(f"{label} {pyname}@{date}", both(c1, c2), 60,
                             sample={"rule": pyname, "date": str(date), "claim": f"no two valid rows with {label}",
                                     "path_types": sorted(t.__name__ for t in guards)})
            ck.nontrivial.add((label, pyname))
            if r == "sat":
                replay_model(ck, label, name, f, P, date, syms, m)
        if len(guards) > 1:
            # weaker class: dtype depends on data (no value changed)
            ts = list(guards)
            sat_pairs = []
            for i in range(len(ts)):
                for j in range(i + 1, len(ts)):
                    r, m = ck.oblige(f"dtype-varies {pyname}@{date} {ts[i].__name__}/{ts[j].__name__}",
                                     both([type_guard(v, ts[i])], [type_guard(v, ts[j])]), 60)
                    if r == "sat":
                        sat_pairs.append((ts[i], ts[j], m))
            ck.nontrivial.add(("dtype-varies", pyname))
            if sat_pairs:
                replay_model(ck, "dtype-varies", name, f, P, date, syms, sat_pairs[0][2])
        else:
            ck.add_discharged()
            ck.nontrivial.add(("single-type", pyname))
    else:
        # dtype fixed by otypes: every path value must be representable in it
        cases = []
        if ot is int and float in guards:
            cases.append(("declared-int-truncates", [type_guard(v, float), z3.Not(z3.IsInt(val_real))]))
        if ot is bool and (float in guards or int in guards):
            cases.append(("declared-bool-coerces", [z3.Or(type_guard(v, float), type_guard(v, int)), val_real != 0, val_real != 1]))
        if not cases:
            ck.add_discharged()
            ck.nontrivial.add(("fixed-otypes-ok", pyname))
        for label, c in cases:
            r, m = ck.oblige(f"{label} {pyname}@{date}", [r1(x) for x in pre + noerr + c], 60,
                             sample={"rule": pyname, "date": str(date), "claim": label})
            ck.nontrivial.add((label, pyname))
            if r == "sat":
                replay_model(ck, label, name, f, P, date, syms, m, single=True)
    # (b') declared type vs. path types -- reported in evidence only
    if declared in (float, int, bool):
        wider = [t.__name__ for t in guards if R.WIDTH[t] > R.WIDTH[declared]]
        if wider:
            ck.extra.setdefault("paths_wider_than_declared", {})[pyname] = f"declared {declared.__name__}, path types {sorted(t.__name__ for t in guards)}"


def wrapper_value_equation(ck, name, f, P, date, syms, v, term, pre, noerr, r1, r2):
    """run the real wrapper_vectorize_func (numpy.vectorize modelled with its first-row dtype rule) on two
    symbolic rows and compare every position with the scalar rule"""
    from _gettsim.functions_loader import _vectorize_func
    from gsv import colsym
    from gsv.colsym import SymArray
    if not syms:
        return
    w = production_wrapper(f, date, name)
    kw = {a: P[a[:-7]] for a in inspect.signature(f).parameters if a.endswith("_params")}
    arrs = {a: SymArray([R.sym_for(a + "@1", s.ty), R.sym_for(a + "@2", s.ty)], s.ty) for a, s in syms.items()}
    old = colsym.VECTORIZE_STRICT
    colsym.VECTORIZE_STRICT = True
    try:
        vw, ctxw = R.run(w, kwargs={**kw, **arrs})
    except R.Unsupported as e:
        ck.add_inconclusive(f"value-equation {f.__name__}@{date}: wrapper not encodable ({e})")
        return
    finally:
        colsym.VECTORIZE_STRICT = old
    if vw is None or not isinstance(vw, SymArray) or len(vw.e) != 2:
        ck.add_inconclusive(f"value-equation {f.__name__}@{date}: wrapper gives no 2-row column")
        return
    # the column's dtype follows the declared result type (whatever the wrapper does)
    declared = f.__annotations__.get("return")
    kinds = {float: "f", int: "iu", bool: "b"}
    # (where numpy.vectorize infers the dtype from the first row the obligations on path types above decide)
    if (declared in kinds and getattr(vw.dtype, "kind", None) is not None and vw.dtype.kind not in kinds[declared] + "O"
            and (vectorize_otypes(f, date, name) is not None or len(R.tyguards(v)) == 1)):
        ck.obligations += 1
        sv = z3.Solver()
        sv.set("timeout", 20000)
        sv.add([r1(c) for c in pre + noerr] + [r2(c) for c in pre + noerr])
        rows = rows_from_model(sv.model(), syms) if str(sv.check()) == "sat" else None
        res = replay_rows(date, name, f.__name__, rows) if rows else None
        got = {v["dtype"] for k, v in (res or {}).items() if k.startswith("order") and isinstance(v, dict)}
        ck.nontrivial.add(("declared-dtype", f.__name__))
        if got and any(numpy.dtype(g).kind not in kinds[declared] for g in got):
            ck.violation(["declared-dtype", f.__name__], f"{f.__name__} ({name}) at {date}: declared {declared.__name__} but the column comes out as {sorted(got)} for rows={rows}",
                         {"date": str(date), "name": name, "rows": rows, "label": "declared-dtype"})
        elif got:
            common.spurious("C03", f"declared-dtype {f.__name__}: model dtype {vw.dtype} but the API gives {sorted(got)}")
        else:
            ck.add_inconclusive(f"declared-dtype {f.__name__}@{date}: no valid rows to replay")
    s1, s2 = r1(term), r2(term)

    def neq(a, b):
        ta = R.lift(a)[0]
        if z3.is_bool(ta) and z3.is_bool(b):
            return ta != b
        x = R.num(a)[0]
        y = b if not z3.is_bool(b) else z3.If(b, 1, 0)
        x = z3.ToReal(x) if x.sort() == z3.IntSort() else x
        y = z3.ToReal(y) if y.sort() == z3.IntSort() else y
        return x != y
    werr = [g for g, k, wh in ctxw.errors if k not in ("ZeroDivisionError",)]
    cons = [r1(c) for c in pre + noerr] + [r2(c) for c in pre + noerr] + list(ctxw.assumptions) + [z3.Or(neq(vw.e[0], s1), neq(vw.e[1], s2))]
    r, m = ck.oblige(f"value-equation {f.__name__}@{date}", cons, 60,
                     sample=None if len(ck.samples) > 9 else {"rule": f.__name__, "date": str(date), "claim": "wrapper_vectorize_func([x1, x2])[k] == rule(xk) for k = 1, 2"})
    ck.nontrivial.add(("value-equation", f.__name__))
    if r == "sat":
        rows = rows_from_model(m, syms)
        res = replay_rows(date, name, f.__name__, rows)
        dv = direct_vectorized(f, P, rows)
        first_types = {t for t in res["scalar_types"]}
        label = "coercion" if "bool" in first_types and len(first_types) > 1 else "truncation"
        if res["value_changed"]:
            ck.violation([label, f.__name__], f"{f.__name__} ({name}) at {date}: the column differs from the scalar rule applied per row: rows={rows} -> {res}",
                         {"date": str(date), "name": name, "rows": rows, "label": label})
        elif dv["value_changed"]:
            ck.inconclusive.append(f"value-equation {f.__name__}@{date}: reproduces on the vectorized rule, not through the API (argument types coerced)")
        else:
            common.spurious("C03", f"value-equation {f.__name__}: rows={rows} -> {res}")


def encoder_validation(ck, f, kw, syms, v, ctx, rnd):
    for _ in range(3):
        conc = {}
        for a, s in syms.items():
            if s.ty is bool:
                conc[a] = rnd.random() < 0.5
            elif s.ty is int:
                conc[a] = rnd.choice([0, 1, 2, 3, 5, 10, 17, 24, 25, 40, 66, 1960, 1990, 2010])
            else:
                conc[a] = rnd.choice([0.0, 1.0, 450.0, 520.5, 1000.0, 2000.0, 3500.25, 7000.0, 60000.0, 300000.0, 0.3])
        subs = [(s.t, z3.BoolVal(conc[a]) if s.ty is bool else (z3.IntVal(conc[a]) if s.ty is int else R.const_real(conc[a])))
                for a, s in syms.items()]
        if any(not z3.is_true(z3.simplify(z3.substitute(R.zbool(c), *subs))) for c in ctx.assumptions):
            continue
        try:
            real = f(**{**kw, **conc})
            rerr = None
        except Exception as e:
            real, rerr = None, type(e).__name__
        errs = [k for g, k, w in ctx.errors if z3.is_true(z3.simplify(z3.substitute(g, *subs)))]
        ck.extra["encoder_validation_points"] = ck.extra.get("encoder_validation_points", 0) + 1
        if rerr or errs:
            if bool(rerr) != bool(errs):
                raise common.HarnessError(f"encoder validation: {f.__name__} raises={rerr} but guards={errs} at {conc}")
            continue
        pv = R.z3_to_py(z3.simplify(z3.substitute(v.t, *subs))) if R.is_sym(v) else v
        same_type = True
        if R.is_sym(v):
            gs = R.tyguards(v)
            tt = [T for T, g in gs.items() if z3.is_true(z3.simplify(z3.substitute(R.zbool(g), *subs)))]
            same_type = len(tt) == 1 and tt[0] is R.pytype(real)
        okv = (bool(real) == bool(pv)) if R.pytype(real) is bool else abs(float(real) - float(pv)) <= 1e-9 * max(1.0, abs(float(real)))
        if not okv or not same_type:
            raise common.HarnessError(f"encoder validation: {f.__name__}({conc}) real={real!r}:{type(real).__name__} symbolic={pv!r} types={same_type}")


def rows_from_model(m, syms, tags=("@1", "@2")):
    rows = []
    for tag in tags:
        row = {}
        for a, s in syms.items():
            row[a] = R.model_value(m, R.sym_for(a + tag, s.ty))
        rows.append(row)
    return rows


def api_run(date, name, rows):
    """run the real API on the rows (args supplied as data columns); returns list of values"""
    import pandas as pd
    from gettsim import compute_taxes_and_transfers
    P, F = gt.env(date)
    cols = {a: [r[a] for r in rows] for a in rows[0]}
    if "p_id" not in cols:
        cols["p_id"] = list(range(len(rows)))
    df = pd.DataFrame(cols)
    for a in rows[0]:
        ty = type(rows[0][a])
        df[a] = df[a].astype({bool: bool, int: "int64", float: "float64"}[ty])
    out = compute_taxes_and_transfers(df, P, F, targets=[name])
    return [gt.py(x) for x in out[name].tolist()], str(out[name].dtype)


def replay_rows(date, name, pyname, rows):
    P, F = gt.env(date)
    f = F[name]
    kw = {a: P[a[:-7]] for a in inspect.signature(f).parameters if a.endswith("_params")}
    scalar = [gt.py(f(**kw, **r)) for r in rows]
    res = {"scalar": scalar, "scalar_types": [type(s).__name__ for s in scalar]}
    fails = False
    dtypes = set()
    for order in (list(range(len(rows))), list(reversed(range(len(rows))))):
        try:
            vals, dt = api_run(date, name, [rows[i] for i in order])
        except Exception as e:
            res[f"order{order}"] = f"raises {type(e).__name__}: {e}"[:200]
            continue
        res[f"order{order}"] = {"values": vals, "dtype": dt}
        dtypes.add(dt)
        for pos, i in enumerate(order):
            if not _same(vals[pos], scalar[i]):
                fails = True
    res["value_changed"] = fails
    res["dtype_depends_on_data"] = len(dtypes) > 1
    return res


def _same(a, b):
    if isinstance(b, bool) or isinstance(a, bool):
        return float(a) == float(b)
    return abs(float(a) - float(b)) <= 1e-9 * max(1.0, abs(float(b)))


def direct_vectorized(f, P, rows):
    """the real vectorized wrapper called on numpy columns typed by the rule's own annotations"""
    from _gettsim.functions_loader import _vectorize_func
    w = _vectorize_func(f)
    kw = {a: P[a[:-7]] for a in inspect.signature(f).parameters if a.endswith("_params")}
    dts = set()
    changed = False
    scalar = [gt.py(f(**kw, **r)) for r in rows]
    for order in (list(range(len(rows))), list(reversed(range(len(rows))))):
        cols = {a: numpy.array([rows[i][a] for i in order]) for a in rows[0]}
        out = numpy.asarray(w(**kw, **cols))
        dts.add(str(out.dtype))
        for pos, i in enumerate(order):
            if not _same(gt.py(out[pos]), scalar[i]):
                changed = True
    return {"value_changed": changed, "dtype_depends_on_data": len(dts) > 1}


def replay_model(ck, label, name, f, P, date, syms, m, single=False):
    rows = rows_from_model(m, syms, ("@1",) if single else ("@1", "@2"))
    res = replay_rows(date, name, f.__name__, rows)
    api_ok = res["value_changed"] or (label == "dtype-varies" and res["dtype_depends_on_data"])
    if not api_ok:
        dv = direct_vectorized(f, P, rows)
        if dv["value_changed"] or (label == "dtype-varies" and dv["dtype_depends_on_data"]):
            # true of the vectorized rule, but the public API coerces a supplied argument column to another
            # type than the rule's own annotation says (e.g. an aggregate annotated int that is float):
            # frontier-dependent candidate, neither a violation nor an encoder error
            ck.inconclusive.append(f"{label} {f.__name__}@{date}: reproduces on the vectorized rule, not through the API (argument types coerced)")
            ck.extra.setdefault("frontier_dependent_candidates", []).append(f"{label} {f.__name__}")
            return
    key = [label.split(":")[0] if label.startswith(("truncation", "coercion")) else label, f.__name__]
    if label == "dtype-varies":
        if res["dtype_depends_on_data"] or res["value_changed"]:
            ck.violation(key, f"{f.__name__} ({name}): column dtype depends on the data: {res}",
                         {"date": str(date), "name": name, "rows": rows, "label": label})
        else:
            # the path-type analysis is only a candidate generator for this weaker class: the real
            # wrapper gives one dtype for both orders, so there is nothing to report
            ck.discharged += 1
        return
    if res["value_changed"]:
        ck.violation(key, f"{f.__name__} ({name}) at {date}: a value is changed by the column dtype: rows={rows} -> {res}",
                     {"date": str(date), "name": name, "rows": rows, "label": label})
    else:
        common.spurious("C03", f"{f.__name__} {label} model does not reproduce: rows={rows} -> {res}")


def _dates_chunk(ck, dates):
    """one worker: a list of dates, rule terms de-duplicated within the chunk"""
    rnd = random.Random(common.SEED)
    done = set()
    n = 0
    for date in dates:
        P, F = gt.env(date)
        for name, f in F.items():
            if gt.is_rule(f):
                n += 1
                analyse_rule(ck, name, f, P, date, done, rnd)
    ck.extra["rule_instances"] = ck.extra.get("rule_instances", 0) + n
    ck.extra["distinct_rule_terms"] = ck.extra.get("distinct_rule_terms", 0) + len(done)


def translator_validation(ck, tier, rnd):
    """Encoder guard on the repository's own test populations (not the deciding step): each test case
    is run through the real API with debug=True; for every scalar-rule node whose parents are in the
    result, the symbolic definition of the node (the real callable incl. rounding wrapper), evaluated
    under the row's concrete parent values, must equal the real column."""
    import warnings
    import pandas as pd
    from gettsim import compute_taxes_and_transfers
    from _gettsim_tests._policy_test_utils import load_policy_test_data
    from _gettsim_tests import TEST_DATA_DIR
    from gsv import rulebank, symdag
    policies = sorted(p.name for p in TEST_DATA_DIR.iterdir() if p.is_dir())
    encs = {}
    n_cases = n_vals = 0
    for pol in policies:
        try:
            cases = load_policy_test_data(pol).test_data
        except Exception:   # noqa: BLE001
            continue
        rnd.shuffle(cases)
        for case in cases[: (1 if tier == "quick" else 6)]:
            date = case.date
            if date.year < 2005:
                continue
            P, F = gt.env(date)
            targets = [c for c in case.output_df.columns]
            with warnings.catch_warnings():
                warnings.simplefilter("ignore")
                try:
                    out = compute_taxes_and_transfers(case.input_df, P, F, targets=targets, debug=True)
                    dag = symdag.Dag(date, targets=targets, data_cols=list(case.input_df.columns))
                except Exception:   # noqa: BLE001
                    continue
            n_cases += 1
            for n in dag.topo():
                if dag.kind(n) != "rule" or n not in out.columns or any(p not in out.columns for p in dag.parents(n)):
                    continue
                key = (date, n)
                if key not in encs:
                    encs[key] = rulebank.encode_rule(dag, n)
                enc = encs[key]
                if enc.reason or enc.term is None:
                    continue
                for row in range(min(len(out), 3)):
                    subs, ok = [], True
                    for a, sy in enc.syms.items():
                        v = out[a].iloc[row]
                        try:
                            if sy.ty is bool:
                                subs.append((sy.t, z3.BoolVal(bool(v))))
                            elif sy.ty is int:
                                if float(v) != int(v):
                                    ok = False
                                subs.append((sy.t, z3.IntVal(int(v))))
                            else:
                                subs.append((sy.t, R.const_real(float(v))))
                        except (TypeError, ValueError, OverflowError):
                            ok = False
                    if not ok:
                        continue
                    if any(not z3.is_true(z3.simplify(z3.substitute(R.zbool(c), *subs))) for c in enc.assumptions):
                        continue
                    if any(z3.is_true(z3.simplify(z3.substitute(g, *subs))) for g, k, w in enc.errors):
                        continue
                    try:
                        sym = R.z3_to_py(z3.simplify(z3.substitute(enc.term, *subs)))
                    except R.Unsupported:
                        continue
                    real = out[n].iloc[row]
                    n_vals += 1
                    same = (bool(real) == bool(sym)) if isinstance(sym, bool) else abs(float(real) - float(sym)) <= 1e-6 * max(1.0, abs(float(real)))
                    if not same:
                        raise common.HarnessError(f"translator validation: {n} in {case} row {row}: real {real!r}, encoding {sym!r}")
    ck.extra["translator_validation"] = {"repo_test_cases": n_cases, "node_values_compared": n_vals}


def _variants_chunk(ck, names):
    """one worker: internal rules, once per structural parameter variant inside their validity period
    (gt.param_variants: keys present, types, zero / non-zero of every parameter path the rule reads) -- covers
    every date at which the rule can behave structurally differently, not only the fixed quick dates"""
    rnd = random.Random(common.SEED)
    done = set()
    allf = gt.all_internal_functions()
    n = 0
    for fname in names:
        f = allf[fname]
        info = getattr(f, "__info__", {}) or {}
        lo = max(info["start_date"], datetime.date(1985, 1, 1)) if info.get("start_date") else datetime.date(1985, 1, 1)
        try:
            vs = gt.param_variants(f, lo, info.get("end_date"), abstract=True)
        except Exception as e:   # noqa: BLE001
            ck.not_encoded[fname] = f"no parameter variants: {type(e).__name__}"
            continue
        name = info.get("name_in_dag", fname)
        for lab, kw in vs:
            date = datetime.date.fromisoformat(lab) if lab else gt.function_date_for(f)
            P = {a[: -len("_params")]: v for a, v in kw.items()}
            n += 1
            analyse_rule(ck, name, f, P, date, done, rnd)
    ck.extra["rule_x_parameter_variant"] = ck.extra.get("rule_x_parameter_variant", 0) + n
    ck.extra["distinct_rule_terms"] = ck.extra.get("distinct_rule_terms", 0) + len(done)


def run(tier):
    ck = common.Check("C03", tier)
    rnd = random.Random(common.SEED)
    done = set()
    translator_validation(ck, tier, rnd)
    dates = date_classes(tier)
    n_rules = 0
    chunks = [dates[i::common.JOBS] for i in range(common.JOBS) if dates[i::common.JOBS]] if len(dates) > 1 else [dates]
    if len(chunks) == 1:
        _dates_chunk(ck, chunks[0])
    else:
        common.run_parallel(ck, _dates_chunk, chunks)
    # every internal rule once per structural parameter variant (all dates, not only the date classes above)
    names = [n_ for n_, f_ in gt.all_internal_functions().items() if gt.is_rule(f_)]
    common.run_parallel(ck, _variants_chunk, [names[i::common.JOBS] for i in range(common.JOBS) if names[i::common.JOBS]])
    n_rules = ck.extra.get("rule_instances", 0)
    done = range(ck.extra.get("distinct_rule_terms", 0))
    ck.bounds = {"date_classes": len(dates), "rule_instances": n_rules, "distinct_rule_terms": len(done),
                 "rows": "2 (first row fixes the dtype, second row carries the value)",
                 "range(n) unrolling": f"n <= {R.RANGE_FORK_LIMIT} (stated as assumption in the queries)",
                 "rule_x_parameter_variant": ck.extra.get("rule_x_parameter_variant", 0),
                 "window": "quick: 4 dates; thorough: one representative per distinct environment fingerprint 1980..last entry+1y; both: every internal rule "
                           "once per structural parameter variant (keys, types, zero/non-zero of the parameter paths it reads) within its validity from 1985"}
    ck.assumptions = validity.DESCRIPTION + ["rule arguments range over their annotated types within the documented ranges (any node can be supplied as a data column)"]
    ck.stubs = ["numpy.vectorize: element-wise call of pyfunc; dtype = otypes if set else dtype of the first row's result (numpy documented behaviour)"]
    ck.rule = "one obligation per (distinct symbolic rule term, claim); distinct by (claim, python function)"
    ck.explanation = ("Typed symbolic execution of every active scalar rule: z3 decides whether two valid rows exist whose result types differ such that the "
                      "dtype induced by the first row changes the second row's value (or the dtype at all); models replayed through the real API in both row orders.")
    return ck.finish()


def replay(path):
    d = json.load(open(path))["replay"]
    date = datetime.date.fromisoformat(d["date"])
    P, F = gt.env(date)
    res = replay_rows(date, d["name"], F[d["name"]].__name__, d["rows"])
    print(json.dumps(res, indent=1, default=str))
    bad = res["value_changed"] or (d["label"] == "dtype-varies" and res["dtype_depends_on_data"])
    if d["label"] == "declared-dtype":
        declared = F[d["name"]].__annotations__.get("return")
        kinds = {float: "f", int: "iu", bool: "b"}
        got = {v["dtype"] for k, v in res.items() if k.startswith("order") and isinstance(v, dict)}
        bad = bad or any(numpy.dtype(g).kind not in kinds.get(declared, "fiub") for g in got)
    return 1 if bad else 0
