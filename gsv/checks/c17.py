"""C17 -- means-tested benefits are mutually exclusive as the priority rules say.

SymDAG slice of the real graph per date class, evaluated over N symbolic persons: the priority flags,
ALG II, Wohngeld, Kinderzuschlag, Grundsicherung im Alter, the real `wthh_id` grouping code, the real
`grouped_any` / `grouped_sum` / `grouped_count` aggregations (via colsym).  Frontier nodes (needs, income,
entitlements before priority) are free and group-constant by construction (uninterpreted functions of the
group id; constancy = C15).  Group membership is symbolic, constrained by the unit nesting (C12).
"""
from __future__ import annotations

import datetime
import json

import z3

from gsv import colsym, common, gt, symdag
from gsv import rulesym as R
from gsv.colsym import SymArray

TARGETS = ["arbeitsl_geld_2_m_bg", "wohngeld_m_wthh", "kinderzuschl_m_bg", "grunds_im_alter_m_eg", "wthh_id",
           "kinderzuschl_vorrang_bg", "wohngeld_kinderzuschl_vorrang_bg", "wohngeld_vorrang_bg"]
# frontier: free group-level quantities (value = uninterpreted function of the group id)
FRONTIER_MONEY = ["arbeitsl_geld_2_vor_vorrang_m_bg", "arbeitsl_geld_2_regelbedarf_m_bg", "arbeitsl_geld_2_eink_m_bg", "wohngeld_anspruchshöhe_m_bg",
                  "wohngeld_anspruchshöhe_m_wthh", "_kinderzuschl_nach_vermög_check_m_bg", "_grunds_im_alter_mehrbedarf_schwerbeh_g_m_eg", "kindergeld_m_eg",
                  "kind_unterh_erhalt_m_eg", "unterhaltsvors_m_eg", "grunds_im_alter_eink_m_eg", "vermögen_bedürft_eg", "grunds_im_alter_vermög_freib_eg"]
EPS = z3.RealVal("1/1000000")


def date_classes(tier):
    if tier == "quick":
        return list(gt.QUICK_DATES), None
    from gsv import dateprobe
    regs, st = dateprobe.explore(datetime.date(2015, 1, 1), max(dateprobe.yaml_seed_dates()), check_endpoints=False)
    return [r.rep for r in regs], st


def build(date, n):
    dag = symdag.Dag(date, targets=TARGETS)
    hh = [z3.Int(f"hh{i}") for i in range(n)]
    bg = [z3.Int(f"bg{i}") for i in range(n)]
    eg = [z3.Int(f"eg{i}") for i in range(n)]
    kind = [z3.Bool(f"kind{i}") for i in range(n)]
    rentner = [z3.Bool(f"rentner{i}") for i in range(n)]
    cons = []
    for i in range(n):
        cons += [hh[i] >= 0, hh[i] <= 1, bg[i] >= 0, bg[i] <= n, eg[i] >= 0, eg[i] <= n, z3.Implies(kind[i], z3.Not(rentner[i]))]
        for j in range(n):
            # unit nesting (C12): needs unit and Einstandsgemeinschaft lie within one household
            cons += [z3.Implies(bg[i] == bg[j], hh[i] == hh[j]), z3.Implies(eg[i] == eg[j], hh[i] == hh[j])]
    frontier = {
        "hh_id": SymArray([R.Sym(x, int) for x in hh], int),
        "bg_id": SymArray([R.Sym(x, int) for x in bg], int),
        "eg_id": SymArray([R.Sym(x, int) for x in eg], int),
        "kind": SymArray([R.Sym(x, bool) for x in kind], bool),
        "rentner": SymArray([R.Sym(x, bool) for x in rentner], bool),
    }
    order, needed = dag.cone(TARGETS, stop=lambda m: m in FRONTIER_MONEY or m == "wthh_id")
    ufs = {}
    for m in FRONTIER_MONEY:
        if m not in dag.graph.nodes:
            continue
        g = gt.suffix_group(m)
        if g == "wthh":
            continue          # built after wthh_id is known
        U = z3.Function(m, z3.IntSort(), z3.RealSort())
        ufs[m] = U
        ids = {"bg": bg, "eg": eg, "hh": hh}[g]
        frontier[m] = SymArray([R.Sym(U(ids[i]), float) for i in range(n)], float)
        cons += [U(ids[i]) >= 0 for i in range(n)]
    ctx = R.Ctx()
    cache = {}
    # wthh_id first (real grouping code), then the wthh-level frontier as a function of it
    wthh = symdag.eval_cols(dag, "wthh_id", frontier, cache, ctx, stop_at=set(FRONTIER_MONEY))
    if "wohngeld_anspruchshöhe_m_wthh" in dag.graph.nodes:
        U = z3.Function("wohngeld_anspruchshöhe_m_wthh", z3.IntSort(), z3.RealSort())
        ids = [R.term_of(x) for x in wthh.e]
        frontier["wohngeld_anspruchshöhe_m_wthh"] = SymArray([R.Sym(U(ids[i]), float) for i in range(n)], float)
        cons += [U(ids[i]) >= 0 for i in range(n)]
    vals = {t: symdag.eval_cols(dag, t, frontier, cache, ctx, stop_at=set(FRONTIER_MONEY)) for t in TARGETS}
    return dag, frontier, vals, cons, ctx, (hh, bg, eg, kind, rentner)


def assumption_check(ck, dag, date, done):
    """The slice treats group-level quantities above the priority checks as functions of the group id, i.e. it
    assumes group constancy (C15).  The assumption is re-checked here on every group-level rule in the cone of the
    C17 targets with C15's two-copy query; a failure that is not a listed C15 finding voids the proof for this
    tree: reported as inconclusive here (the violation itself is C15's to report)."""
    from gsv.checks import c15
    tmp = common.Check("C15", ck.tier)
    facts = c15.Facts(tmp, dag, date)
    known = {(tuple(k["key"])[1], tuple(k["key"])[2]) for k in tmp.known if tuple(k["key"])[:1] == ("not-group-constant",)}
    order, _ = dag.cone(TARGETS)
    for node in order:
        sg = gt.suffix_group(node)
        if not sg or node.endswith("_params") or dag.kind(node) != "rule":
            continue
        r, m, info = facts.query(node, sg, oblige=False)
        ck.queries += 1
        if r != "sat":
            continue
        f = info[0]
        if (f.__name__, sg) in known or (f.__name__, sg) in done:
            continue
        done.add((f.__name__, sg))
        ck.add_inconclusive(f"assumption of the proof fails at {date}: {f.__name__} is not constant within {sg} (free arguments {info[2]}); "
                            "the C17 claims are not established for this tree (see C15)")
        ck.extra.setdefault("assumption_failures", []).append({"rule": f.__name__, "group": sg, "date": str(date), "free_args": info[2]})
    ck.queries += tmp.queries
    ck.solver_time += tmp.solver_time


def run_date(ck, date, n, seen):
    try:
        dag, frontier, vals, cons, ctx, ids = build(date, n)
    except R.Unsupported as e:
        ck.add_inconclusive(f"slice at {date}: {e}")
        return
    assumption_check(ck, dag, date, ck.extra.setdefault("_assumption_seen", set()))
    ck.functions |= ctx.funcs
    hh, bg, eg, kind, rentner = ids
    T = lambda v: R.term_of(v, float)        # noqa: E731
    B = lambda v: R.truth(v)                 # noqa: E731
    alg2, wg, kiz, gia, wthh = (vals[k].e for k in TARGETS[:5])
    kv, wkv, wv = (vals[k].e for k in TARGETS[5:8])
    fp = hash(tuple(str(R.lift(x)[0]) for k in TARGETS for x in vals[k].e))
    if fp in seen:
        return
    seen.add(fp)
    errs = [g for g, k, w in ctx.errors]
    pre = cons + list(ctx.assumptions) + ([z3.Not(z3.Or(errs))] if errs else [])
    # vacuity twins: each benefit can be positive somewhere (assertions reachable)
    for name, col in (("ALG II", alg2), ("Wohngeld", wg), ("Kinderzuschlag", kiz), ("Grundsicherung", gia)):
        r, _ = ck.solve(pre + [z3.Or([T(x) > 0 for x in col])], 60)
        if r != "sat":
            raise common.HarnessError(f"C17 vacuity twin: {name} can never be positive in the slice at {date} ({r})")
    reg = frontier["arbeitsl_geld_2_regelbedarf_m_bg"].e
    eink = frontier["arbeitsl_geld_2_eink_m_bg"].e
    kzn = frontier["_kinderzuschl_nach_vermög_check_m_bg"].e
    wga = frontier["wohngeld_anspruchshöhe_m_bg"].e
    obs = [
        ("ALG II excludes Wohngeld and Kinderzuschlag", z3.Or([z3.And(T(alg2[i]) > EPS, z3.Or(T(wg[i]) > EPS, T(kiz[i]) > EPS)) for i in range(n)])),
        ("Grundsicherung im Alter excludes ALG II, Wohngeld and Kinderzuschlag",
         z3.Or([z3.And(T(gia[i]) > EPS, z3.Or(T(alg2[i]) > EPS, T(wg[i]) > EPS, T(kiz[i]) > EPS)) for i in range(n)])),
        ("members of one Bedarfsgemeinschaft share the Wohngeld part-household",
         z3.Or([z3.And(bg[i] == bg[j], R.term_of(wthh[i]) != R.term_of(wthh[j])) for i in range(n) for j in range(i + 1, n)])),
        ("Kinderzuschlag only where it (alone or with Wohngeld) covers the need",
         z3.Or([z3.And(T(kiz[i]) > EPS, T(eink[i]) + T(kzn[i]) + T(wga[i]) < T(reg[i]) - EPS) for i in range(n)])),
        ("part-household ids of different households differ",
         z3.Or([z3.And(hh[i] != hh[j], R.term_of(wthh[i]) == R.term_of(wthh[j])) for i in range(n) for j in range(i + 1, n)])),
    ]
    for label, bad in obs:
        r, m = ck.oblige(f"{label} @{date} N={n}", pre + [bad], 120,
                         sample={"date": str(date), "persons": n, "claim": label, "slice_nodes": len(dag.cone(TARGETS, stop=lambda x: x in FRONTIER_MONEY)[0])})
        ck.nontrivial.add((label, fp))
        if r == "sat":
            report(ck, dag, date, n, label, m, frontier, vals)


def report(ck, dag, date, n, label, m, frontier, vals):
    """replay through the real API with the frontier columns supplied as data"""
    data = {}
    for k, col in frontier.items():
        data[k] = [R.model_value(m, x) for x in col.e]
    res = replay_data(date, data, n)
    key = [label, str(date)]
    what = f"{label} fails at {date}: frontier={data} -> {res['values']}"
    if res["fails"].get(label):
        # the frontier is supplied as data: a frontier-dependent candidate unless it is a plain consequence
        # of the priority rules themselves (all frontier values are group-level quantities >= 0, attainable)
        ck.violation(key[:1], what, {"date": str(date), "data": data, "label": label, "n": n})
    else:
        common.spurious("C17", what)


def replay_data(date, data, n):
    import pandas as pd
    from gettsim import compute_taxes_and_transfers
    P, F = gt.env(date)
    cols = {"p_id": list(range(n)), **data}
    df = pd.DataFrame(cols)
    for k, v in data.items():
        ty = type(v[0])
        df[k] = df[k].astype({bool: bool, int: "int64", float: "float64"}[ty])
    import warnings
    with warnings.catch_warnings():
        warnings.simplefilter("ignore")
        try:
            out = compute_taxes_and_transfers(df, P, F, targets=TARGETS[:5])
        except Exception as e:   # noqa: BLE001
            return {"values": f"raises {type(e).__name__}: {e}"[:300], "fails": {}}
    v = {t: [gt.py(x) for x in out[t].tolist()] for t in TARGETS[:5]}
    a, w, k, g, wt = (v[t] for t in TARGETS[:5])
    e = 1e-6
    fails = {
        "ALG II excludes Wohngeld and Kinderzuschlag": any(a[i] > e and (w[i] > e or k[i] > e) for i in range(n)),
        "Grundsicherung im Alter excludes ALG II, Wohngeld and Kinderzuschlag": any(g[i] > e and (a[i] > e or w[i] > e or k[i] > e) for i in range(n)),
        "members of one Bedarfsgemeinschaft share the Wohngeld part-household": any(data["bg_id"][i] == data["bg_id"][j] and wt[i] != wt[j] for i in range(n) for j in range(n)),
        "Kinderzuschlag only where it (alone or with Wohngeld) covers the need": any(
            k[i] > e and data["arbeitsl_geld_2_eink_m_bg"][i] + data["_kinderzuschl_nach_vermög_check_m_bg"][i] + data["wohngeld_anspruchshöhe_m_bg"][i]
            < data["arbeitsl_geld_2_regelbedarf_m_bg"][i] - e for i in range(n)),
        "part-household ids of different households differ": any(data["hh_id"][i] != data["hh_id"][j] and wt[i] == wt[j] for i in range(n) for j in range(n)),
    }
    return {"values": v, "fails": fails}


_N = 3


def _chunk(ck, dates):
    seen = set()
    for d in dates:
        run_date(ck, d, _N, seen)
    ck.extra["distinct_slices"] = ck.extra.get("distinct_slices", 0) + len(seen)


def run(tier):
    ck = common.Check("C17", tier)
    n = 3 if tier == "quick" else 4
    dates, st = date_classes(tier)
    global _N
    _N = n
    chunks = [dates[i::common.JOBS] for i in range(common.JOBS) if dates[i::common.JOBS]] if len(dates) > 1 else [dates]
    common.run_parallel(ck, _chunk, chunks)
    ck.extra.pop("_assumption_seen", None)
    seen = range(ck.extra.get("distinct_slices", 0))
    ck.bounds = {"persons": n, "households": "<= 2", "date_classes": len(dates), "distinct_slices": len(seen), "eps": "1e-6",
                 "window": "quick: 4 dates >= 2015; thorough: every date region >= 2015-01-01"}
    ck.assumptions = ["frontier quantities (needs, income, entitlements before the priority checks, wealth terms) are arbitrary non-negative group-level values "
                      "(group constancy: C15 -- re-checked on every group-level rule in the cone of the C17 targets; a failure that is not a listed C15 "
                      "finding is reported as 'assumption fails' and leaves the run inconclusive); unit nesting bg/eg within hh (C12); kind => not rentner"]
    ck.stubs = ["numpy_groupies.aggregate contract model (conformance-tested in C11)", "numpy.asarray -> symbolic array"]
    ck.rule = "one obligation per (distinct symbolic slice, claim)"
    ck.explanation = ("The real priority-rule slice (rules, wthh_id grouping code, group aggregations) is evaluated over N symbolic persons with symbolic unit membership; "
                      "z3 refutes every forbidden benefit combination, split needs units and Kinderzuschlag below need for all frontier values.")
    return ck.finish()


def replay(path):
    d = json.load(open(path))["replay"]
    res = replay_data(datetime.date.fromisoformat(d["date"]), d["data"], d["n"])
    print(json.dumps(res, default=str)[:1500])
    return 1 if res["fails"].get(d["label"]) else 0
