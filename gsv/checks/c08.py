"""C08 -- every supported date yields a complete, computable system.

Per date class >= 2015: (a) the real DAG of the default targets is built by the real loader (cycles,
missing rounding specs are loader errors), its roots are compared with the documented inputs;
(b) every reachable rule is executed symbolically with its parents havoc'd inside V; every *error guard*
(missing parameter key, index outside a table, NotImplementedError, division by zero, TypeError) must be
unsat.  A locally reachable guard is re-asked on the whole cone evaluated from root inputs for a
single-person household (real grouping / aggregation code on a 1-row column); a model there is replayed
through the real compute_taxes_and_transfers.
"""
from __future__ import annotations

import datetime
import json

import z3

from gsv import colsym, common, gt, rulebank, symdag, validity
from gsv import rulesym as R
from gsv.colsym import SymArray

POINTERS = ("p_id_",)


def _after_last_entry():
    """the last date at which any parameter file changes (the law most users simulate), if later than the fixed list"""
    from gsv import dateprobe
    last = max(dateprobe.yaml_seed_dates())
    return [last] if last > datetime.date(2025, 1, 1) else []


def date_classes(tier):
    if tier == "quick":
        return [datetime.date(2015, 1, 1), datetime.date(2017, 3, 1), datetime.date(2019, 7, 1), datetime.date(2021, 1, 1),
                datetime.date(2022, 10, 1), datetime.date(2023, 7, 1), datetime.date(2024, 1, 1), datetime.date(2025, 1, 1),
                *_after_last_entry()], None
    from gsv import dateprobe
    regs, st = dateprobe.explore(datetime.date(2015, 1, 1), max(dateprobe.yaml_seed_dates()), check_endpoints=False)
    seen, out = set(), []
    for r in regs:
        if r.fp and r.fp not in seen:
            seen.add(r.fp)
            out.append(r.rep)
    return out, st


SingleCone = rulebank.SingleCone


def check_date(ck, date, seen):
    from _gettsim.config import TYPES_INPUT_VARIABLES
    validity.use_params(gt.env(date)[0])
    try:
        dag = symdag.Dag(date)
    except Exception as e:   # noqa: BLE001 -- the loader itself fails for this date
        ck.obligations += 1
        ck.violation(["graph", type(e).__name__, str(e)[:60]], f"default-target graph cannot be built at {date}: {type(e).__name__}: {e}"[:300], {"kind": "graph", "date": str(date)})
        return
    # (a) roots are documented inputs or parameter-only rules
    ck.obligations += 1
    roots = [n for n in dag.graph.nodes if list(dag.graph.predecessors(n)) == []]
    undocumented = [r for r in roots if r not in TYPES_INPUT_VARIABLES and r not in dag.funcs and not r.endswith("_params")]
    if not undocumented:
        ck.discharged += 1
    elif not ck.violation(["undocumented-root", ",".join(sorted(undocumented))[:80]], f"roots {undocumented} of the default-target graph at {date} are not documented inputs",
                          {"kind": "roots", "date": str(date)}):
        ck.discharged += 1
    cone = None
    for n in dag.topo():
        k = dag.kind(n)
        if k not in ("rule", "paramonly", "timeconv"):
            continue
        enc = rulebank.encode_rule(dag, n)
        if enc.reason:
            fn_ = getattr(enc.f, "__name__", n)
            if fn_ not in ck.not_encoded:
                ck.not_encoded[fn_] = enc.reason
                ck.add_inconclusive(f"{fn_}: not encoded ({enc.reason})")
            continue
        ck.functions |= enc.funcs
        if not enc.errors:
            continue
        fname = getattr(enc.f, "__name__", n)
        sig = (fname, tuple(sorted((str(g), kk) for g, kk, w in enc.errors)))
        if sig in seen:
            continue
        seen.add(sig)
        pre = rulebank.local_pre(enc)
        kinds = sorted({kk for g, kk, w in enc.errors})
        ck.obligations += 1
        ck.nontrivial.add(sig)
        r, m = ck.solve(pre + [z3.Or([g for g, kk, w in enc.errors])], 60)
        sample = {"rule": fname, "node": n, "date": str(date), "error_kinds": kinds, "local_verdict": r}
        if r == "unsat":
            ck.discharged += 1
            if len(ck.samples) < 10:
                ck.samples.append(sample)
            continue
        if r == "unknown":
            ck.inconclusive.append(f"{fname}@{date}: local error-guard query unknown")
            continue
        # locally reachable: re-ask on the cone from root inputs (single-person household)
        try:
            if cone is None:
                cone = SingleCone(dag)
            v, ctxn = cone.value(n)
        except R.Unsupported as e:
            ck.inconclusive.append(f"{fname}@{date}: error guard {kinds} locally reachable; cone not encodable ({e})")
            continue
        guards = [g for g, kk, w in (ctxn.errors if ctxn else [])]
        vpre = validity.inputs(cone.syms) + cone.ancestors_ok(n)
        r2, m2 = ck.solve(vpre + [z3.Or(guards)] if guards else [z3.BoolVal(False)], 120)
        sample["cone_verdict"] = r2
        if len(ck.samples) < 10:
            ck.samples.append(sample)
        if r2 == "unsat":
            # unreachable for a single person: expand the frontier over small multi-person household
            # templates (ids / pointers / ages concrete, all other inputs symbolic per person)
            hit = template_cones(ck, dag, date, n, fname, kinds)
            if hit:
                continue
            # discharged within the stated bound (single person + the household templates); the guard is
            # reachable only with parent values that none of these populations attains -- listed in the evidence
            ck.discharged += 1
            ck.extra.setdefault("frontier_dependent_candidates", []).append({"rule": fname, "date": str(date), "kinds": kinds,
                                                                            "local_model": {a: str(m.eval(s.t, model_completion=True)) for a, s in enc.syms.items()}})
            continue
        if r2 != "sat":
            ck.inconclusive.append(f"{fname}@{date}: cone query {r2}")
            continue
        row = {a: R.model_value(m2, s) for a, s in cone.syms.items()}
        rep = replay_row(date, n, row)
        what = f"{fname} ({n}) at {date}: computing it raises {rep['raises']} for a valid single person {compact(row)}"
        if rep["raises"]:
            ck.violation(["raises", fname, rep["raises"].split(":")[0]], what, {"kind": "row", "date": str(date), "node": n, "row": row})
        else:
            common.spurious("C08", what + f" -> {rep}")


TEMPLATES = [(2, 0), (1, 1), (2, 1), (2, 3), (1, 4), (2, 5), (2, 10)]


def template_cones(ck, dag, date, n, fname, kinds):
    """returns True if a root-level population reproduces the error on the real API (violation reported)"""
    import warnings
    for na, nc in TEMPLATES:
        always = False
        try:
            cone = rulebank.TemplateCone(dag, na, nc, date.year)
            v, ctxn = cone.value(n)
        except (R.Unsupported, ValueError, KeyError) as e:
            if isinstance(e, R.Unsupported) and "raises on every path" in str(e):
                always = True      # the node cannot be computed for ANY population of this template: replay one
            else:
                ck.extra.setdefault("template_cone_not_encoded", {})[f"{fname}/{na}+{nc}"] = str(e)[:80]
                continue
        if always:
            r, m = ck.solve(cone.valid(), 60)
            if r != "sat":
                ck.extra.setdefault("template_cone_not_encoded", {})[f"{fname}/{na}+{nc}"] = f"raises on every path; template population: {r}"
                continue
        else:
            guards = [g for g, kk, w in (ctxn.errors if ctxn else [])]
            if not guards:
                continue
            r, m = rulebank.ladder(ck, cone.valid() + cone.ancestors_ok(n), z3.Or(guards), cone.syms, (20, 60))
            if r != "sat":
                continue
        df = cone.dataframe(m)
        from gettsim import compute_taxes_and_transfers
        P, F = gt.env(date)
        with warnings.catch_warnings():
            warnings.simplefilter("ignore")
            try:
                compute_taxes_and_transfers(df, P, F, targets=[n])
                raised = None
            except Exception as e:   # noqa: BLE001
                raised = f"{type(e).__name__}: {e}"[:160]
        what = f"{fname} ({n}) at {date}: computing it raises {raised} for a valid household of {na} adult(s) and {nc} child(ren)"
        if raised:
            ck.violation(["raises", fname, raised.split(":")[0]], what,
                         {"kind": "household", "date": str(date), "node": n, "adults": na, "children": nc,
                          "data": {c: [x.item() if hasattr(x, "item") else x for x in df[c].tolist()] for c in df.columns}})
            return True
        common.spurious("C08", what)
    return False


def compact(row):
    return {k: v for k, v in row.items() if v not in (0, 0.0, False)}


def replay_row(date, n, row):
    import warnings
    import pandas as pd
    from gettsim import compute_taxes_and_transfers
    P, F = gt.env(date)
    cols = {"p_id": [0], "hh_id": [0]}
    from _gettsim.config import TYPES_INPUT_VARIABLES
    for k in TYPES_INPUT_VARIABLES:
        if k.startswith("p_id_"):
            cols[k] = [-1]
    for k, v in row.items():
        cols[k] = [v]
    df = pd.DataFrame(cols)
    for k, v in row.items():
        df[k] = df[k].astype({bool: bool, int: "int64", float: "float64"}[type(v)])
    with warnings.catch_warnings():
        warnings.simplefilter("ignore")
        try:
            out = compute_taxes_and_transfers(df, P, F, targets=[n])
            return {"raises": None, "value": gt.py(out[n].iloc[0])}
        except Exception as e:   # noqa: BLE001
            return {"raises": f"{type(e).__name__}: {e}"[:160]}


def _chunk(ck, dates):
    seen = set()
    for d in dates:
        check_date(ck, d, seen)
    ck.extra["distinct_signatures"] = ck.extra.get("distinct_signatures", 0) + len(seen)


def run(tier):
    ck = common.Check("C08", tier)
    dates, st = date_classes(tier)
    chunks = [dates[i::common.JOBS] for i in range(common.JOBS) if dates[i::common.JOBS]]
    common.run_parallel(ck, _chunk, chunks)
    seen = range(ck.extra.get("distinct_signatures", 0))
    ck.bounds = {"date_classes": len(dates), "distinct_rule_error_signatures": len(seen),
                 "persons": "rule-local: 1 row of free parents; cones from root inputs: single person, then household templates (adults, children) in " + str(TEMPLATES),
                 "window": "quick: 8 dates >= 2015; thorough: one representative per distinct environment >= 2015",
                 "outside": "error guards reachable only through multi-person structures are reported as frontier-dependent candidates (inconclusive)"}
    if st:
        ck.extra["date_exploration"] = {k: v for k, v in st.items() if k != "leaks"}
    ck.assumptions = validity.DESCRIPTION
    ck.stubs = ["numpy.vectorize element-wise; numpy_groupies contract model; rounding wrapper executed from source"]
    ck.rule = "one obligation per (rule, set of error guards) distinct over dates, plus graph construction and root documentation per date class"
    ck.explanation = ("Every rule reachable from the default targets is executed symbolically; z3 must refute each error guard (missing key / index / not implemented / "
                      "division by zero) under the valid-input predicate, first locally with havoc'd parents, then on the whole cone from root inputs of a single-person "
                      "household; cone models are replayed through the real API.")
    return ck.finish()


def replay(path):
    d = json.load(open(path))["replay"]
    if d["kind"] == "household":
        import pandas as pd
        import warnings
        from gettsim import compute_taxes_and_transfers
        P, F = gt.env(datetime.date.fromisoformat(d["date"]))
        with warnings.catch_warnings():
            warnings.simplefilter("ignore")
            try:
                compute_taxes_and_transfers(pd.DataFrame(d["data"]), P, F, targets=[d["node"]])
                print("no error")
                return 0
            except Exception as e:   # noqa: BLE001
                print("raises", type(e).__name__, e)
                return 1
    if d["kind"] == "row":
        rep = replay_row(datetime.date.fromisoformat(d["date"]), d["node"], d["row"])
        print(rep)
        return 1 if rep["raises"] else 0
    print("re-run the check")
    return 0
