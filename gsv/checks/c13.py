"""C13 -- time-unit variants of a column differ exactly by the fixed factors.

(a) the 12 real converters executed symbolically: u_to_v(x) = x * f_u / f_v in reals
    (f = 1, 12, 365.25/7, 365.25 per year; the stored double 365.25/7 may differ from the rational
    by one ulp: asserted relative 2^-50), round trips identity in reals and within 5*2^-53
    relative under the (1+delta) floating-point model;
(b) wiring: every sibling the real loader derives for a time-suffixed rule / input is proved equal
    to source * factor for all values; conversion commutes with group summation (N<=3 persons);
    supplying an input in another unit leaves every other node's definition unchanged.
"""
from __future__ import annotations

import datetime
import inspect
import warnings
import fractions
import json
import random
import re

import numpy
import z3

from gsv import colsym, common, gt, symdag
from gsv import rulesym as R
from gsv.colsym import SymArray

FACT = {"y": fractions.Fraction(1), "m": fractions.Fraction(12), "w": fractions.Fraction(36525, 700), "d": fractions.Fraction(36525, 100)}
PAT = re.compile(r"(?P<base>.*_)(?P<u>[ymwd])(?P<agg>_(hh|wthh|fg|bg|eg|ehe|sn))?$")
REL = fractions.Fraction(1, 2 ** 50)


def zfr(x):
    fr = fractions.Fraction(x)
    return z3.RealVal(f"{fr.numerator}/{fr.denominator}")


def zabs(t):
    return z3.If(t >= 0, t, -t)


def converters(ck):
    import _gettsim.time_conversion as TC
    convs = {n: getattr(TC, n) for n in (f"{a}_to_{b}" for a in "ymwd" for b in "ymwd" if a != b) if callable(getattr(TC, n, None))}
    want = {f"{a}_to_{b}" for a in "ymwd" for b in "ymwd" if a != b}
    factory_wiring(ck)
    ck.obligations += 1
    if set(convs) == want:
        ck.discharged += 1
    else:
        ck.violation(["converter-set"], f"converter table is {sorted(convs)}", {"kind": "table"})
    x = R.Sym(z3.Real("x"), float)
    for name, f in sorted(convs.items()):
        a, b = name.split("_to_")
        ratio = FACT[b] / FACT[a]          # flows: value per unit b = value per unit a * (units a per b)^-1
        ratio = FACT[a] / FACT[b]
        v, ctx = R.run(f, kwargs={"value": x})
        ck.functions |= ctx.funcs
        t = R.term_of(v, float)
        want_t = x.t * zfr(ratio)
        r, m = ck.oblige(f"factor {name}", [zabs(t - want_t) > zfr(REL) * zabs(want_t)], 30,
                         sample={"converter": name, "claim": f"{name}(x) == x * {ratio} (rel. 2^-50)"})
        ck.nontrivial.add(("factor", name))
        # the converter must not modify the column it is given (numpy in-place arithmetic on the argument would
        # overwrite the source column of the derived node)
        col = SymArray([R.Sym(z3.Real("c0"), float), R.Sym(z3.Real("c1"), float)], float)
        try:
            _, ctx_a = R.run(f, kwargs={"value": col})
            ck.obligations += 1
            ck.nontrivial.add(("alias", name))
            muts = getattr(ctx_a, "arg_mutations", None) or []
            if not muts:
                ck.discharged += 1
            else:
                a = numpy.array([1.5, 2.5])
                f(a)
                if list(a) != [1.5, 2.5]:
                    ck.violation(["converter-mutates-argument", name], f"{name} modifies the array it is given (in-place arithmetic on {muts[0][1]!r}): [1.5, 2.5] -> {a.tolist()}; "
                                 "the source column of every node derived with it is overwritten", {"kind": "alias", "name": name})
                else:
                    common.spurious("C13", f"{name}: recorded argument mutation does not reproduce")
        except R.Unsupported as e:
            ck.add_inconclusive(f"no aliasing {name}: {e}")
        if r == "sat":
            xv = float(R.z3_to_fraction(m.eval(x.t, model_completion=True))) or 1.0
            real = float(f(xv))
            if abs(real - xv * float(ratio)) > 1e-12 * abs(xv * float(ratio)):
                ck.violation(["factor", name], f"{name}({xv}) = {real}, documented factor gives {xv * float(ratio)}", {"kind": "conv", "name": name, "x": xv})
            else:
                common.spurious("C13", f"factor {name} model {xv}")
        if ctx.errors:
            ck.oblige(f"noerr {name}", [z3.Or([g for g, k, w in ctx.errors])], 30)
    # round trips: exact in reals, and within 5*2^-53 relative in the (1+delta) model
    for a in "ymwd":
        for b in "ymwd":
            if a == b:
                continue
            f, g = convs[f"{a}_to_{b}"], convs[f"{b}_to_{a}"]
            ctx = R.Ctx()
            v1, ctx = R.run(f, kwargs={"value": x}, ctx=ctx)
            v2, ctx = R.run(g, kwargs={"value": v1}, ctx=ctx)
            ck.oblige(f"roundtrip-real {a}->{b}->{a}", [zabs(R.term_of(v2, float) - x.t) > zfr(fractions.Fraction(1, 2 ** 51)) * zabs(x.t)], 30)
            ctx = R.Ctx(fp=True)
            v1, ctx = R.run(f, kwargs={"value": x}, ctx=ctx)
            v2, ctx = R.run(g, kwargs={"value": v1}, ctx=ctx)
            bound = zfr(fractions.Fraction(5, 2 ** 53) + fractions.Fraction(1, 2 ** 51))
            r, m = ck.oblige(f"roundtrip-fp {a}->{b}->{a}", ctx.fp_constraints() + [zabs(R.term_of(v2, float) - x.t) > bound * zabs(x.t)], 60,
                             sample={"roundtrip": f"{a}->{b}->{a}", "model": "fl(op) = op*(1+d), |d|<=2^-53 per operation", "bound": "5*2^-53 + 2^-51 relative"})
            ck.nontrivial.add(("roundtrip", a, b))
            if r == "sat":
                ck.inconclusive.append(f"roundtrip-fp {a}->{b}->{a}: bound not met in the (1+d) model")


def factory_wiring(ck):
    """every ordered pair of units through the real factory: the function derived for x_<v> from a
    source named x_<u> (with and without group suffix) multiplies by the documented factor --
    independent of which units occur among the real column names"""
    import _gettsim.time_conversion as TC
    s = R.Sym(z3.Real("s"), float)
    for agg in ("", "_hh"):
        for u in "ymwd":
            src = f"gsvprobe_{u}{agg}"
            try:
                made = TC._create_time_conversion_functions(src)
            except Exception as e:   # noqa: BLE001
                ck.obligations += 1
                ck.violation(["factory-raises", u + agg], f"_create_time_conversion_functions({src!r}) raises {type(e).__name__}: {e}", {"kind": "factory"})
                continue
            for v in "ymwd":
                if v == u:
                    continue
                d = f"gsvprobe_{v}{agg}"
                ck.obligations += 1
                if d not in made:
                    ck.violation(["factory-missing", f"{u}->{v}{agg}"], f"no {d} is derived from {src}", {"kind": "factory"})
                    continue
                ck.obligations -= 1
                fac = FACT[u] / FACT[v]
                ctx = R.Ctx()
                try:
                    with R.using(ctx):
                        val = R.call_value(made[d], [], {src: s})
                    t = R.term_of(val, float)
                except (R.Unsupported, R.PathEnd) as e:
                    ck.add_inconclusive(f"factory {u}->{v}{agg}: {e}")
                    continue
                r, m = ck.oblige(f"factory {src} -> {d} = x * {fac}", [zabs(t - s.t * zfr(fac)) > zfr(REL) * zabs(s.t * zfr(fac))], 30,
                                 sample=None if (u, v, agg) != ("d", "w", "") else {"source": src, "derived": d, "factor": str(fac)})
                ck.nontrivial.add(("factory", u, v, agg))
                if r == "sat":
                    out = float(numpy.asarray(made[d](**{src: numpy.array([700.0])}))[0])
                    if abs(out - 700.0 * float(fac)) > 1e-9 * 700.0 * float(fac):
                        ck.violation(["factory-factor", f"{u}->{v}{agg}"], f"{d} derived from {src} gives {out} for 700.0; documented factor {fac} gives {700.0 * float(fac)}",
                                     {"kind": "factory", "u": u, "v": v})
                    else:
                        common.spurious("C13", f"factory {u}->{v}")
                # the same derived function on an integer-typed column (whole-euro amounts arrive as int64): still x * factor, as float
                icol = SymArray([R.Sym(z3.Int("i0"), int), R.Sym(z3.Int("i1"), int)], int)
                ctx = R.Ctx()
                try:
                    with R.using(ctx):
                        val = R.call_value(made[d], [], {src: icol})
                    ts = [R.term_of(x, float) for x in val.e]
                except (R.Unsupported, R.PathEnd, AttributeError) as e:
                    ck.add_inconclusive(f"factory {u}->{v}{agg} on an integer column: {e}")
                    continue
                bad = z3.Or([zabs(t - z3.ToReal(i.t) * zfr(fac)) > zfr(REL) * zabs(z3.ToReal(i.t) * zfr(fac)) for t, i in zip(ts, icol.e)])
                r, m = ck.oblige(f"factory {src} (int64 column) -> {d} = x * {fac}", [z3.And(i.t >= 0, i.t <= 10**7) for i in icol.e] + [bad], 30)
                ck.nontrivial.add(("factory-int", u, v, agg))
                if r == "sat":
                    arr = numpy.array([R.model_value(m, i) for i in icol.e], dtype="int64")
                    out = numpy.asarray(made[d](**{src: arr}), dtype=float)
                    exp = arr.astype(float) * float(fac)
                    if not numpy.allclose(out, exp, rtol=1e-9, atol=0):
                        ck.violation(["factory-int", f"{u}->{v}{agg}"], f"{d} derived from the int64 column {src}={arr.tolist()} gives {out.tolist()}; documented factor {fac} gives {exp.tolist()}",
                                     {"kind": "factory", "u": u, "v": v})
                    else:
                        common.spurious("C13", f"factory-int {u}->{v}")


def time_names(dag_functions, inputs):
    out = []
    for n in list(dag_functions) + list(inputs):
        if PAT.fullmatch(n):
            out.append(n)
    return out


def wiring(ck, date, tier, rnd, seen):
    from _gettsim.config import TYPES_INPUT_VARIABLES
    P, F = gt.env(date)
    base_names = [n for n in list(F) + list(TYPES_INPUT_VARIABLES) if PAT.fullmatch(n)]
    targets, plan = [], []
    for n in base_names:
        mt = PAT.fullmatch(n)
        for u in "ymwd":
            if u != mt.group("u"):
                d = f"{mt.group('base')}{u}{mt.group('agg') or ''}"
                if d in F or d in TYPES_INPUT_VARIABLES:
                    continue      # an existing rule / input of that name must win (checked below)
                targets.append(d)
                plan.append((d, n, FACT[mt.group("u")] / FACT[u]))
    targets = sorted(set(targets))
    dag = symdag.Dag(date, targets=targets, rounding=False)
    s = R.Sym(z3.Real("s"), float)
    n_checked = 0
    for d, src, fac in plan:
        if d not in dag.funcs:
            ck.add_inconclusive(f"sibling {d} of {src} not derived at {date}")
            continue
        par = dag.parents(d)
        # shadowing: a derived name never replaces an existing rule
        if dag.kind(d) in ("rule", "paramonly"):
            continue
        if par != [src]:
            # derived from another sibling: the factor is then relative to that sibling
            mt2 = PAT.fullmatch(par[0]) if len(par) == 1 else None
            if not mt2:
                ck.add_inconclusive(f"{d}: unexpected parents {par}")
                continue
            u_d = PAT.fullmatch(d).group("u")
            src, fac = par[0], FACT[mt2.group("u")] / FACT[u_d]
        key = (d, src, repr(dag.raw_funcs[d].__wrapped__.__closure__ and [c.cell_contents for c in dag.raw_funcs[d].__wrapped__.__closure__ if callable(c.cell_contents)]))
        ctx = R.Ctx()
        with R.using(ctx):
            v = R.call_value(dag.funcs[d], [], {src: s})
        ck.functions |= ctx.funcs
        t = R.term_of(v, float)
        sig = (src, d, str(t))
        if sig in seen:
            continue
        seen.add(sig)
        want_t = s.t * zfr(fac)
        r, m = ck.oblige(f"sibling {d}={src}*{fac} @{date}", [zabs(t - want_t) > zfr(REL) * zabs(want_t)], 30,
                         sample=None if n_checked > 2 else {"derived": d, "source": src, "factor": str(fac), "date": str(date)})
        n_checked += 1
        ck.nontrivial.add(("sibling", d, src))
        if r == "sat":
            out = float(numpy.asarray(dag.funcs[d](**{src: numpy.array([700.0])}))[0])
            if abs(out - 700.0 * float(fac)) > 1e-9 * 700.0 * float(fac):
                ck.violation(["sibling-factor", d, src], f"{d} derived from {src} gives {out} for 700.0; documented factor {fac} gives {700.0 * float(fac)}",
                             {"kind": "sibling", "d": d, "src": src, "date": str(date)})
            else:
                common.spurious("C13", f"sibling {d} model does not reproduce")
    # shadowing: names that exist as rule keep the rule
    for n in base_names:
        if n in F and n in dag.funcs:
            ck.obligations += 1
            if dag.kind(n) in ("rule", "paramonly", "skipvec"):
                ck.discharged += 1
            else:
                ck.violation(["shadowed-rule", n], f"rule {n} is replaced by a derived function at {date}", {"kind": "shadow", "n": n, "date": str(date)})
    return dag


def commute_with_sums(ck, date, tier, seen):
    """x_<v>_<g> requested where only x_<u> exists: value must be factor * group sum of x_<u> (N persons)"""
    N = 2 if tier == "quick" else 3
    cases = [("bruttolohn_m", "bruttolohn_y_hh", "hh"), ("kindergeld_m", "kindergeld_y_fg", "fg"), ("eink_selbst_m", "eink_selbst_w_hh", "hh"),
             ("sonstig_eink_m", "sonstig_eink_d_sn", "sn")]
    if tier == "thorough":
        cases += [("kapitaleink_brutto_m", "kapitaleink_brutto_y_bg", "bg"), ("priv_rente_m", "priv_rente_w_eg", "eg"),
                  ("arbeitsl_geld_m", "arbeitsl_geld_y_hh", "hh"), ("unterhaltsvors_m", "unterhaltsvors_d_ehe", "ehe")]
    for src, tgt, g in cases:
        if (src, tgt) in seen:
            continue
        try:
            dag = symdag.Dag(date, targets=[tgt], rounding=False)
        except Exception as e:
            ck.add_inconclusive(f"commute {tgt}: graph not built ({type(e).__name__})")
            continue
        seen.add((src, tgt))
        col = colsym.SymArray([R.Sym(z3.Real(f"v{i}"), float) for i in range(N)], float)
        gid = colsym.SymArray([R.Sym(z3.Int(f"g{i}"), int) for i in range(N)], int)
        ctx = R.Ctx()
        try:
            v = symdag.eval_cols(dag, tgt, {src: col, f"{g}_id": gid}, {}, ctx)
        except R.Unsupported as e:
            ck.add_inconclusive(f"commute {tgt}: {e}")
            continue
        ck.functions |= ctx.funcs
        mt, ms = PAT.fullmatch(tgt), PAT.fullmatch(src)
        fac = FACT[ms.group("u")] / FACT[mt.group("u")]
        pre = [x.t >= 0 for x in gid.e]
        spec = [z3.Sum([z3.If(gid.e[j].t == gid.e[i].t, col.e[j].t, z3.RealVal(0)) for j in range(N)]) * zfr(fac) for i in range(N)]
        bad = z3.Or([zabs(R.term_of(v.e[i], float) - spec[i]) > zfr(REL) * zabs(spec[i]) for i in range(N)])
        errs = [gd for gd, k, w in ctx.errors]
        r, m = ck.oblige(f"commute {tgt} = {fac} * sum_{g}({src}) @{date}", pre + [bad], 60,
                         sample={"target": tgt, "source": src, "group": g, "persons": N, "claim": "conversion commutes with group summation"})
        ck.nontrivial.add(("commute", tgt))
        if errs:
            ck.oblige(f"commute-noerr {tgt}", pre + [z3.Or(errs)], 30)
        if r == "sat":
            vals = numpy.array([1.0, 2.5, 4.0][:N])
            ids = numpy.array([0, 0, 1][:N])
            out = numpy.asarray(_concrete_cols(dag, tgt, {src: vals, f"{g}_id": ids}), dtype=float)
            want = numpy.array([vals[ids == i].sum() for i in ids]) * float(fac)
            if not numpy.allclose(out, want, rtol=1e-9):
                ck.violation(["commute", tgt], f"{tgt} from {src}: {out.tolist()} expected {want.tolist()}", {"kind": "commute", "tgt": tgt, "src": src, "date": str(date)})
            else:
                common.spurious("C13", f"commute {tgt}")


def _concrete_cols(dag, n, data):
    if n in data:
        return data[n]
    kw = {p: _concrete_cols(dag, p, data) for p in dag.parents(n)}
    return dag.funcs[n](**kw)


def other_unit_inputs(ck, date, tier, rnd):
    """supplying an input in another time unit: every other node keeps its definition"""
    from _gettsim.config import DEFAULT_TARGETS, TYPES_INPUT_VARIABLES
    inputs = [n for n in TYPES_INPUT_VARIABLES if PAT.fullmatch(n) and not PAT.fullmatch(n).group("agg")]
    rnd.shuffle(inputs)
    # always: inputs that are the source of a built-in aggregation (the aggregation is built before the conversions)
    from _gettsim.functions_loader import load_aggregation_dict
    agg_sources = sorted({v.get("source_col") for typ in ("aggregate_by_p_id", "aggregate_by_group")
                          for v in load_aggregation_dict(typ).values() if v.get("source_col") in inputs})
    inputs = agg_sources + [n for n in (inputs[:3] if tier == "quick" else inputs) if n not in agg_sources]
    base = symdag.Dag(date)
    s = R.Sym(z3.Real("s"), float)
    for n in inputs:
        if n not in base.graph.nodes:
            continue
        mt = PAT.fullmatch(n)
        for u in ("y" if mt.group("u") != "y" else "m",) if tier == "quick" else [x for x in "ymwd" if x != mt.group("u")]:
            alt = f"{mt.group('base')}{u}"
            cols = [c for c in TYPES_INPUT_VARIABLES if c != n] + [alt]
            dag = symdag.Dag(date, data_cols=cols)
            ck.obligations += 1
            if n not in dag.funcs or dag.parents(n) != [alt]:
                if not ck.violation(["other-unit-input", n, alt], f"with {alt} supplied instead of {n}, {n} is not derived from it at {date}",
                                    {"kind": "otherunit", "n": n, "alt": alt, "date": str(date)}):
                    ck.discharged += 1
                continue
            ck.discharged += 1
            ctx = R.Ctx()
            with R.using(ctx):
                v = R.call_value(dag.funcs[n], [], {alt: s})
            fac = FACT[u] / FACT[mt.group("u")]
            ck.oblige(f"other-unit {n} <- {alt} @{date}", [zabs(R.term_of(v, float) - s.t * zfr(fac)) > zfr(REL) * zabs(s.t * zfr(fac))], 30,
                      sample={"input": n, "supplied_as": alt, "factor": str(fac)})
            ck.nontrivial.add(("otherunit", n, alt))
            # all other common nodes: same underlying callable and same parents
            diff = []
            for k in base.graph.nodes:
                if k in (n, alt) or k not in base.funcs:
                    continue
                if k not in dag.funcs:
                    diff.append((k, "missing"))
                    continue
                if base.parents(k) != dag.parents(k) or _identity(base.raw_funcs[k]) != _identity(dag.raw_funcs[k]):
                    diff.append((k, "definition"))
            ck.obligations += 1
            if not diff:
                ck.discharged += 1
            elif not ck.violation(["other-unit-definitions", n, alt], f"supplying {alt} instead of {n} changes nodes {diff[:5]} at {date}",
                                  {"kind": "otherunit", "n": n, "alt": alt, "date": str(date)}):
                ck.discharged += 1


def _identity(f):
    """what a node callable computes: code object + closure constants (derived functions are re-created per load)"""
    import inspect
    seen = []
    while True:
        code = getattr(f, "__code__", None)
        cl = []
        if getattr(f, "__closure__", None):
            for c in f.__closure__:
                try:
                    v = c.cell_contents
                except ValueError:
                    continue
                if callable(v) and hasattr(v, "__code__"):
                    cl.append(_identity(v))
                elif isinstance(v, (str, int, float, bool, type(None), dict, tuple)):
                    cl.append(repr(v))
        seen.append((code, tuple(cl)))
        if hasattr(f, "__wrapped__"):
            f = f.__wrapped__
            continue
        break
    return tuple(seen)


def explicit_pairs(ck):
    """Two hand-written rules for the same flow in different time units (same base name and group suffix, overlapping
    validity) must agree by the documented factor.  Both real rules are executed on tied arguments: equal names share
    a symbol, an argument that is a unit sibling of one of the other rule's arguments (or the other rule itself) is
    that value times the factor (induction over the graph).  Every policy function of the tree is considered, at a
    date inside the overlap of the two validity periods -- whatever the quick / thorough date list is."""
    allf = gt.all_internal_functions()
    fam = {}
    for fn, f in allf.items():
        if not gt.is_rule(f):
            continue
        info = getattr(f, "__info__", {}) or {}
        n = info.get("name_in_dag", fn)
        mt = PAT.fullmatch(n)
        if mt:
            fam.setdefault((mt.group("base"), mt.group("agg") or ""), []).append((n, mt.group("u"), f, info.get("start_date", datetime.date.min), info.get("end_date", datetime.date.max)))
    # a documented INPUT in another unit is a member of the family too (eink_selbst_m next to the rule eink_selbst_y)
    from _gettsim.config import TYPES_INPUT_VARIABLES
    for name, ty in TYPES_INPUT_VARIABLES.items():
        mt = PAT.fullmatch(name)
        if mt and ty in (float, int) and (mt.group("base"), mt.group("agg") or "") in fam:
            fam[(mt.group("base"), mt.group("agg") or "")].append((name, mt.group("u"), None, datetime.date.min, datetime.date.max))
    n_pairs = 0
    for key, members in sorted(fam.items()):
        for i in range(len(members)):
            for j in range(i + 1, len(members)):
                a, b = members[i], members[j]
                if a[1] == b[1]:
                    continue               # same unit: successive versions of one rule
                lo, hi = max(a[3], b[3]), min(a[4], b[4])
                if lo > hi:
                    continue
                if a[2] is None and b[2] is None:
                    continue
                if b[2] is None or (a[2] is not None and b[0] in inspect.signature(a[2]).parameters):
                    a, b = b, a            # the rule that consumes the other one (or the input) is evaluated second
                # the overlap's last day if it lies in the past, else 2022-01-01 or the first day of the overlap
                date = hi if hi < datetime.date(2022, 1, 1) else max(lo, datetime.date(2022, 1, 1))
                n_pairs += 1
                _explicit_pair(ck, date, a[:3], b[:3])
    ck.extra["explicit_unit_pairs"] = n_pairs


def _explicit_pair(ck, date, a, b):
    na, ua, fa = a
    nb, ub, fb = b
    fac_ba = FACT[ua] / FACT[ub]              # value per unit b = value per unit a * FACT[a] / FACT[b]
    label = f"explicit {nb} == {na} * {fac_ba} @{date}"
    try:
        P, _ = gt.env(date)
        if fa is None:
            # a documented input: a free value (of its documented type)
            from _gettsim.config import TYPES_INPUT_VARIABLES
            va = R.sym_for(na, TYPES_INPUT_VARIABLES[na])
            sa, ctxa = {na: va}, R.Ctx()
        else:
            kwa, sa = gt.rule_args(fa, P)
            va, ctxa = R.run(fa, kwargs=kwa)
        if va is None:
            raise R.Unsupported(f"{na} raises on every path")
        ta = R.term_of(va, float)
        kwb, free = {}, []
        for arg in inspect.signature(fb).parameters:
            if arg.endswith("_params"):
                kwb[arg] = P[arg[: -len("_params")]]
            elif arg == na:
                kwb[arg] = va
            elif arg in sa:
                kwb[arg] = sa[arg]
            else:
                mt = PAT.fullmatch(arg)
                tied = None
                if mt:
                    for other, sym in sa.items():
                        mo = PAT.fullmatch(other)
                        if mo and mo.group("base") == mt.group("base") and (mo.group("agg") or "") == (mt.group("agg") or ""):
                            tied = R.Sym(R.term_of(sym, float) * zfr(FACT[mo.group("u")] / FACT[mt.group("u")]), float)
                if tied is None:
                    ann = fb.__annotations__.get(arg)
                    if ann not in (float, int, bool):
                        raise R.Unsupported(f"argument {arg} of {nb}")
                    tied = R.sym_for(arg, ann)
                    free.append(arg)
                kwb[arg] = tied
        vb, ctxb = R.run(fb, kwargs=kwb)
        if vb is None:
            raise R.Unsupported(f"{nb} raises on every path")
        tb = R.term_of(vb, float)
    except (R.Unsupported, KeyError) as e:
        ck.add_inconclusive(f"{label}: not encodable ({e})")
        return
    ck.functions |= ctxa.funcs | ctxb.funcs
    errs = [g for g, k, w in list(ctxa.errors) + list(ctxb.errors)]
    pre = list(ctxa.assumptions) + list(ctxb.assumptions) + ([z3.Not(z3.Or(errs))] if errs else [])
    want = ta * zfr(fac_ba)
    r, m = ck.oblige(label, pre + [zabs(tb - want) > zfr(REL) * zabs(want) + zfr(fractions.Fraction(1, 10 ** 6))], 60,
                     sample={"rules": [na, nb], "date": str(date), "claim": f"{nb} = {na} x {fac_ba}", "free_arguments_of_the_second_rule": free})
    ck.nontrivial.add(("explicit-pair", na, nb))
    if r != "sat":
        return
    row = {k: R.model_value(m, s_) for k, s_ in sa.items()}
    row.update({k: R.model_value(m, kwb[k]) for k in free})
    rep = _replay_pair(date, na, nb, row, fac_ba)
    what = f"{nb} (hand-written rule) and {na} ({'documented input' if fa is None else 'hand-written rule'}) at {date} do not differ by the documented factor {float(fac_ba):.6g}: inputs {row} -> {rep}"
    if rep.get("fails"):
        ck.violation(["explicit-pair", na, nb], what, {"kind": "pair", "a": na, "b": nb, "date": str(date), "row": row, "fac": [fac_ba.numerator, fac_ba.denominator]})
    elif free:
        ck.add_inconclusive(f"{label}: model depends on untied arguments {free}")
    else:
        common.spurious("C13", what)


def _replay_pair(date, na, nb, row, fac):
    import pandas as pd
    from gettsim import compute_taxes_and_transfers
    P, F = gt.env(date)
    df = pd.DataFrame({"p_id": [0], "hh_id": [0], **{k: [v] for k, v in row.items()}})
    targets = [t for t in (na, nb) if t not in row]
    with warnings.catch_warnings():
        warnings.simplefilter("ignore")
        try:
            out = compute_taxes_and_transfers(df, P, F, targets=targets, rounding=False)
        except Exception as e:   # noqa: BLE001
            return {"raises": f"{type(e).__name__}: {e}"[:160], "fails": False}
    a = float(out[na].iloc[0]) if na in targets else float(row[na])
    b = float(out[nb].iloc[0]) if nb in targets else float(row[nb])
    return {na: a, nb: b, "fails": abs(b - a * float(fac)) > 1e-7 + 1e-12 * abs(a * float(fac))}


def run(tier):
    ck = common.Check("C13", tier)
    rnd = random.Random(common.SEED)
    converters(ck)
    explicit_pairs(ck)
    dates = [datetime.date(2015, 1, 1), datetime.date(2023, 7, 1)] if tier == "quick" else \
        [datetime.date(1990, 1, 1), datetime.date(2005, 1, 1), datetime.date(2010, 1, 1), datetime.date(2015, 1, 1), datetime.date(2018, 1, 1),
         datetime.date(2021, 1, 1), datetime.date(2022, 10, 1), datetime.date(2023, 7, 1), datetime.date(2025, 1, 1)]
    seen, seen_c = set(), set()
    for d in dates:
        wiring(ck, d, tier, rnd, seen)
        commute_with_sums(ck, d, tier, seen_c)
    other_unit_inputs(ck, dates[-1], tier, rnd)
    ck.bounds = {"dates": [str(d) for d in dates], "siblings": len(seen), "persons_for_group_sums": 2 if tier == "quick" else 3,
                 "values": "all reals", "relative_tolerance": "2^-50 (stored double of 365.25/7 vs rational)",
                 "fp_model": "(1+d) per operation, |d|<=2^-53; overflow/subnormals outside"}
    ck.stubs = ["numpy_groupies.aggregate (model, conformance-tested in C11)"]
    ck.rule = "one obligation per converter / round trip / derived sibling (distinct symbolic term) / commutation case / other-unit input"
    ck.explanation = ("The 12 real converters and every sibling the real loader derives are executed symbolically; z3 proves value = source x documented factor for "
                      "all reals, round trips in reals and under the rounding-error model, commutation with group sums at N<=3, and unchanged definitions when an "
                      "input is supplied in another unit.")
    return ck.finish()


def replay(path):
    d = json.load(open(path))["replay"]
    if d["kind"] == "conv":
        import _gettsim.time_conversion as TC
        a, b = d["name"].split("_to_")
        real = float(TC._time_conversion_functions[d["name"]](d["x"]))
        want = d["x"] * float(FACT[a] / FACT[b])
        print(real, want)
        return 1 if abs(real - want) > 1e-12 * abs(want) else 0
    if d["kind"] == "alias":
        import _gettsim.time_conversion as TC
        a = numpy.array([1.5, 2.5])
        getattr(TC, d["name"])(a)
        print(a.tolist())
        return 1 if list(a) != [1.5, 2.5] else 0
    if d["kind"] == "pair":
        rep = _replay_pair(datetime.date.fromisoformat(d["date"]), d["a"], d["b"], d["row"], fractions.Fraction(*d["fac"]))
        print(rep)
        return 1 if rep.get("fails") else 0
    print("re-run the check for kind", d["kind"])
    return 0
