"""C20 -- malformed input data are rejected, and type coercion is lossless.

(a) the real input checks (_fail_if_pid_is_non_unique, _fail_if_foreign_keys_are_invalid,
    _fail_if_group_variables_not_constant_within_groups) and the real type conversion run on symbolic
    columns through a pandas.Series shim (N<=3 rows): z3 decides  fault => raises  and
    no fault => accepted  for every enumerated fault class, and  accepted => values unchanged.
(b) CrossHair on the real sn_id_numpy: contradictory joint-assessment flags raise in every row order.
(c) coercion lemma on machine numbers (z3 floating-point / bit-vectors): int64 -> float64 preserves the
    value iff it is representable; accepted float -> int / bool conversions preserve the value.
Set logic on column names (missing root columns, duplicate columns) runs concretely on enumerated faults.
"""
from __future__ import annotations

import json
import warnings

import numpy
import z3

from gsv import colsym, common, gt
from gsv import rulesym as R
from gsv.colsym import SymArray, SymSeries

FKS = ["p_id_ehepartner", "p_id_einstandspartner", "p_id_elternteil_1", "p_id_elternteil_2"]


def ints(name, n):
    return SymSeries(SymArray([R.Sym(z3.Int(f"{name}{i}"), int) for i in range(n)], int), name)


def reals(name, n):
    return SymSeries(SymArray([R.Sym(z3.Real(f"{name}{i}"), float) for i in range(n)], float), name)


def bools(name, n):
    return SymSeries(SymArray([R.Sym(z3.Bool(f"{name}{i}"), bool) for i in range(n)], bool), name)


def raises_guard(ctx):
    return R.zbool(R.zor(*[g for g, k, w in ctx.errors]))


def run_check(f, data):
    ctx = R.Ctx()
    v, ctx = R.run(f, kwargs={"data": {k: s._copy() for k, s in data.items()}}, ctx=ctx)
    return v, ctx


def safe(ck, label, thunk):
    """an input check that can no longer be encoded is inconclusive, never a crash"""
    try:
        return thunk()
    except R.Unsupported as e:
        ck.add_inconclusive(f"{label}: not encodable ({e})")
        return None


def iff_obligations(ck, label, fault, raises, pre, data, realfn, n):
    """fault => raises, and no fault => does not raise"""
    for lab, cons in ((f"{label}: fault accepted silently", pre + [fault, z3.Not(raises)]),
                      (f"{label}: valid data rejected", pre + [z3.Not(fault), raises])):
        r, m = ck.oblige(f"{lab} N={n}", cons, 60, sample={"check": realfn.__name__, "claim": lab, "rows": n})
        ck.nontrivial.add((label, lab.split(": ")[1], n))
        if r == "sat":
            replay_data(ck, lab, realfn, data, m)


def replay_data(ck, lab, realfn, data, m):
    import pandas as pd
    conc = {}
    for k, s in data.items():
        vals = [R.model_value(m, x) for x in s.e]
        conc[k] = pd.Series(vals, name=k)
    try:
        with warnings.catch_warnings():
            warnings.simplefilter("ignore")
            realfn(conc)
        raised = None
    except ValueError as e:
        raised = str(e)[:80]
    want_raise = "accepted silently" in lab
    what = f"{realfn.__name__}: {lab}: data={ {k: v.tolist() for k, v in conc.items()} } raised={raised}"
    if (raised is None) == want_raise:
        ck.violation([realfn.__name__, lab.split(": ")[1]], what, {"kind": "data", "fn": realfn.__name__, "lab": lab, "data": {k: v.tolist() for k, v in conc.items()}})
    else:
        common.spurious("C20", what)


def input_checks(ck, n):
    from _gettsim import interface as I
    # --- p_id uniqueness ----------------------------------------------------------------
    pid = ints("p_id", n)
    v, ctx = run_check(I._fail_if_pid_is_non_unique, {"p_id": pid})
    ck.functions |= ctx.funcs
    dup = z3.Not(z3.Distinct([x.t for x in pid.e])) if n > 1 else z3.BoolVal(False)
    iff_obligations(ck, "duplicate p_id", dup, raises_guard(ctx), [], {"p_id": pid}, I._fail_if_pid_is_non_unique, n)
    # --- foreign keys ---------------------------------------------------------------------
    for fk in FKS:
        col = ints(fk, n)
        data = {"p_id": pid, fk: col}
        v, ctx = run_check(I._fail_if_foreign_keys_are_invalid, data)
        ck.functions |= ctx.funcs
        missing = z3.Or([z3.And(c.t != -1, z3.And([c.t != p.t for p in pid.e])) for c in col.e])
        selfref = z3.Or([c.t == p.t for c, p in zip(col.e, pid.e)])
        pre = [z3.Distinct([x.t for x in pid.e])] if n > 1 else []
        pre += [p.t >= 0 for p in pid.e]
        iff_obligations(ck, f"{fk} to a missing person or to oneself", z3.Or(missing, selfref), raises_guard(ctx), pre, data,
                        I._fail_if_foreign_keys_are_invalid, n)
    # pairs of faults (thorough): two pointer columns at once
    if n >= 3:
        c1, c2 = ints(FKS[0], n), ints(FKS[2], n)
        data = {"p_id": pid, FKS[0]: c1, FKS[2]: c2}
        v, ctx = run_check(I._fail_if_foreign_keys_are_invalid, data)
        bad = z3.Or([z3.Or(z3.And(c.t != -1, z3.And([c.t != p.t for p in pid.e])), c.t == q.t) for col in (c1, c2) for c, q in zip(col.e, pid.e)])
        pre = [z3.Distinct([x.t for x in pid.e])] + [p.t >= 0 for p in pid.e]
        iff_obligations(ck, "pair of pointer columns", bad, raises_guard(ctx), pre, data, I._fail_if_foreign_keys_are_invalid, n)
    # --- household-level inputs constant within the household -------------------------------------
    hh = ints("hh_id", n)
    for name, col in (("bruttokaltmiete_m_hh", reals("bruttokaltmiete_m_hh", n)), ("bewohnt_eigentum_hh", bools("bewohnt_eigentum_hh", n)),
                      ("immobilie_baujahr_hh", ints("immobilie_baujahr_hh", n))):
        data = {"hh_id": hh, name: col}
        try:
            v, ctx = run_check(I._fail_if_group_variables_not_constant_within_groups, data)
        except R.Unsupported as e:
            ck.add_inconclusive(f"{name} varies within a household N={n}: not encodable ({e})")
            continue
        ck.functions |= ctx.funcs
        varies = z3.Or([z3.And(hh.e[i].t == hh.e[j].t, R.lift(col.e[i])[0] != R.lift(col.e[j])[0]) for i in range(n) for j in range(i + 1, n)]) if n > 1 else z3.BoolVal(False)
        iff_obligations(ck, f"{name} varies within a household", varies, raises_guard(ctx), [h.t >= 0 for h in hh.e], data,
                        I._fail_if_group_variables_not_constant_within_groups, n)
    group_level_columns(ck, n)
    # individual-level column is never touched by the group check
    data = {"hh_id": hh, "bruttolohn_m": reals("bruttolohn_m", n)}
    try:
        v, ctx = run_check(I._fail_if_group_variables_not_constant_within_groups, data)
        ck.oblige(f"individual-level column passes the group check N={n}", [raises_guard(ctx)], 30)
    except R.Unsupported as e:
        ck.add_inconclusive(f"individual-level column passes the group check N={n}: not encodable ({e})")
    missingness_witness(ck, n)


def missingness_witness(ck, n):
    """NaN is outside the solver model (floats are reals).  Concrete supplement, NOT the deciding step: for every
    household pattern of n rows and every placement of NaN / 1.0 in a float *_hh column, a household holding both a
    missing and a present value must be rejected by the real check (all-missing households are left unspecified)."""
    import itertools
    import pandas as pd
    from _gettsim import interface as I
    ck.obligations += 1
    bad = None
    cases = 0
    for hh in itertools.product(range(2), repeat=n):
        for vals in itertools.product((float("nan"), 1.0), repeat=n):
            mixed = any(hh[i] == hh[j] and (vals[i] != vals[i]) != (vals[j] != vals[j]) for i in range(n) for j in range(n))
            if not mixed:
                continue
            cases += 1
            data = {"hh_id": pd.Series(list(hh)), "bruttokaltmiete_m_hh": pd.Series(list(vals), dtype=float)}
            try:
                I._fail_if_group_variables_not_constant_within_groups(data)
                bad = bad or {"hh_id": list(hh), "bruttokaltmiete_m_hh": [None if v != v else v for v in vals]}
            except ValueError:
                pass
    ck.extra["missingness_witness_cases"] = ck.extra.get("missingness_witness_cases", 0) + cases
    if bad is None:
        ck.discharged += 1
    else:
        ck.violation(["_fail_if_group_variables_not_constant_within_groups", "missing-vs-present accepted"],
                     f"a household-level float input that is missing (NaN) for one member and present for another is accepted: {bad}",
                     {"kind": "nan", "data": bad})


def group_level_columns(ck, n, pid="C20"):
    """a column `<x>_<g>` supplied together with `hh_id` and `<g>_id` is rejected iff it varies within <g> -- for every
    supported group level (a computed group-level column may be supplied as data, C05; level names that are suffixes
    of one another -- hh / wthh -- must not be confused)"""
    from _gettsim import interface as I
    from _gettsim.config import SUPPORTED_GROUPINGS
    hh = ints("hh_id", n)
    for g in SUPPORTED_GROUPINGS:
        if g == "hh":
            continue
        gid = ints(f"{g}_id", n)
        col = reals(f"gsvprobe_m_{g}", n)
        data = {"hh_id": hh, f"{g}_id": gid, col.name: col}
        try:
            v, ctx = run_check(I._fail_if_group_variables_not_constant_within_groups, data)
        except R.Unsupported as e:
            ck.add_inconclusive(f"group-level column {col.name}: not encodable ({e})")
            continue
        ck.functions |= ctx.funcs
        varies = z3.Or([z3.And(gid.e[i].t == gid.e[j].t, col.e[i].t != col.e[j].t) for i in range(n) for j in range(i + 1, n)]) if n > 1 else z3.BoolVal(False)
        pre = [h.t >= 0 for h in hh.e] + [x.t >= 0 for x in gid.e]
        iff_obligations(ck, f"{col.name} varies within its {g}", varies, raises_guard(ctx), pre, data,
                        I._fail_if_group_variables_not_constant_within_groups, n)


def conversions(ck, n):
    """accepted conversion => every value unchanged; lossy conversion => ValueError"""
    from _gettsim import gettsim_typing as GT
    cases = [("float->int", reals("x", n), int), ("int->bool", ints("x", n), bool), ("float->bool", reals("x", n), bool),
             ("int->float", ints("x", n), float), ("bool->float", bools("x", n), float), ("bool->int", bools("x", n), int)]
    for lab, s, ty in cases:
        ctx = R.Ctx()
        try:
            v, ctx = R.run(GT.convert_series_to_internal_type, kwargs={"series": s._copy(), "internal_type": ty}, ctx=ctx)
        except R.Unsupported as e:
            ck.add_inconclusive(f"conversion {lab} N={n}: not encodable ({e})")
            continue
        ck.functions |= ctx.funcs
        raises = raises_guard(ctx)
        if v is None:
            # always raises: conversion unsupported -> loud
            ck.add_discharged()
            ck.nontrivial.add(("conv", lab, "always-raises"))
            continue
        changed = z3.Or([z3.Not(R.values_equal(a, b)) for a, b in zip(v.e, s.e)])
        r, m = ck.oblige(f"conversion {lab} changes a value silently N={n}", [z3.Not(raises), changed], 60,
                         sample={"conversion": lab, "rows": n, "claim": "accepted => all values unchanged (exact arithmetic)"})
        ck.nontrivial.add(("conv", lab, n))
        if r == "sat":
            import pandas as pd
            vals = [R.model_value(m, x) for x in s.e]
            try:
                out = GT.convert_series_to_internal_type(pd.Series(vals), ty).tolist()
            except ValueError:
                out = "raises"
            if out != "raises" and any(float(a) != float(b) for a, b in zip(out, vals)):
                ck.violation(["conversion", lab], f"convert_series_to_internal_type({vals}, {ty.__name__}) = {out}", {"kind": "conv", "vals": vals, "ty": ty.__name__})
            else:
                common.spurious("C20", f"conversion {lab}: {vals} -> {out}")
        # representable values are accepted (conversion is not over-strict)
        if lab in ("float->int", "int->bool", "float->bool"):
            if lab == "float->int":
                ok = z3.And([z3.IsInt(x.t) for x in s.e])
            else:
                ok = z3.And([z3.Or(R.num(x)[0] == 0, R.num(x)[0] == 1) for x in s.e])
            ck.oblige(f"conversion {lab} rejects representable values N={n}", [ok, raises], 60)
            ck.oblige(f"conversion {lab} accepts unrepresentable values N={n}", [z3.Not(ok), z3.Not(raises)], 60)
    # check_series_has_expected_type: the gate that decides whether a conversion is attempted (finite table)
    import pandas as pd
    ck.obligations += 1
    tab_ok = True
    for ser, ty, want in ((pd.Series([1.0]), float, True), (pd.Series([1]), float, False), (pd.Series([1]), int, True), (pd.Series([True]), int, False),
                          (pd.Series([True]), bool, True), (pd.Series([1.0]), bool, False), (pd.Series([1.0]), int, False)):
        if bool(GT.check_series_has_expected_type(ser, ty)) != want:
            tab_ok = False
    if tab_ok:
        ck.discharged += 1
    else:
        ck.violation(["type-gate"], "check_series_has_expected_type deviates from the documented table", {"kind": "gate"})


def machine_number_lemma(ck, tier="quick"):
    """int64 -> float64 (the accepted int -> float conversion) and float64 -> int64 on machine numbers"""
    v = z3.BitVec("v", 64)
    d = z3.fpSignedToFP(z3.RNE(), v, z3.Float64())
    back = z3.fpToSBV(z3.RTZ(), d, z3.BitVecSort(64))
    lim = z3.BitVecVal(2 ** 53, 64)
    big = z3.BitVecVal(2 ** 62, 64)
    inrange = z3.And(v <= lim, v >= -lim)
    q1 = [inrange, back != v]
    r, _ = ck.oblige("int64->float64->int64 is the identity for |v| <= 2^53", q1, 120,
                     sample={"lemma": "forall int64 v, |v| <= 2^53: int64(float64(v)) == v", "theory": "QF_FPBV"})
    ck.nontrivial.add(("lemma", "in-range"))
    cross_check(ck, "L1", q1, r, tier)
    r2, m2 = ck.solve([z3.Not(inrange), v < big, v > -big, back != v], 120)
    ck.nontrivial.add(("lemma", "beyond"))
    ck.obligations += 1
    if r2 == "sat":
        bad = m2.eval(v).as_signed_long()
        import pandas as pd
        from _gettsim import gettsim_typing as GT
        out = GT.convert_series_to_internal_type(pd.Series([bad], dtype="int64"), float)
        if int(out.iloc[0]) != bad:
            # keyed by the conversion, not by the witness value
            ck.violation(["int-to-float-lossy"], f"convert_series_to_internal_type(int64 {bad}, float) silently yields {out.iloc[0]!r}", {"kind": "lossy", "v": bad})
        else:
            common.spurious("C20", f"int64 {bad} -> float changes nothing on the real conversion")
    elif r2 == "unsat":
        ck.discharged += 1
    else:
        ck.inconclusive.append("int64->float64 beyond 2^53")
    # accepted float -> int: the acceptance test float64(int64(x)) == x holds only for integral x,
    # and the truncating conversion of an integral double in range is exact
    x = z3.FP("x", z3.Float64())
    xi = z3.fpToSBV(z3.RTZ(), x, z3.BitVecSort(64))
    accepted = z3.And(z3.Not(z3.fpIsNaN(x)), z3.Not(z3.fpIsInf(x)), z3.fpEQ(z3.fpSignedToFP(z3.RNE(), xi, z3.Float64()), x),
                      z3.fpLT(x, z3.FPVal(2.0 ** 62, z3.Float64())), z3.fpGT(x, z3.FPVal(-2.0 ** 62, z3.Float64())))
    q3 = [accepted, z3.Not(z3.fpEQ(z3.fpRoundToIntegral(z3.RTZ(), x), x))]
    r3, _ = ck.oblige("accepted float64->int64 conversions are integral (hence exact)", q3, 120,
                      sample={"lemma": "forall double x, |x| < 2^62: float64(int64(x)) == x  =>  x is integral", "theory": "QF_FPBV"})
    cross_check(ck, "L3", q3, r3, tier)


def cross_check(ck, name, cons, verdict, tier):
    """second solver (cvc5 binary) on the same SMT-LIB text; a disagreement is inconclusive"""
    import os
    import shutil
    import subprocess
    import tempfile
    if tier != "thorough" or not shutil.which("cvc5"):
        return
    s = z3.Solver()
    s.add(cons)
    fd, path = tempfile.mkstemp(suffix=".smt2")
    with os.fdopen(fd, "w") as fh:
        fh.write("(set-logic QF_FPBV)\n" + s.to_smt2())
    try:
        out = subprocess.run(["cvc5", "--tlimit=120000", path], capture_output=True, text=True, timeout=150).stdout.strip().splitlines()
        got = out[0] if out else "unknown"
    except Exception:   # noqa: BLE001
        got = "unknown"
    finally:
        os.unlink(path)
    ck.extra.setdefault("second_solver", {})[name] = {"z3": verdict, "cvc5": got}
    if got in ("sat", "unsat") and got != verdict and verdict in ("sat", "unsat"):
        ck.inconclusive.append(f"lemma {name}: z3 says {verdict}, cvc5 says {got}")


def sn_flags(ck, tier):
    from gsv import grouping_checks as GC, groupsym, xh
    groupsym.run_all(ck, 3 if tier == "quick" else 4, which=("sn",))
    n = 3
    res = GC.run_conditions(ck, "C20", n, ["check_sn_raises"], 150, (), ["check_sn_twin"])
    verdict, cex, secs, tail = res["check_sn_raises"]
    ck.obligations += 1
    ck.nontrivial.add(("sn_raises", n))
    ck.samples.append({"condition": "check_sn_raises", "claim": "contradictory gemeinsam_veranlagt between spouses raises ValueError in every row order", "persons": n, "verdict": verdict})
    if verdict == "confirmed":
        ck.discharged += 1
    elif verdict == "counterexample":
        from gsv.checks import c12
        rep = c12.replay_cex("check_sn_raises", cex, n)
        if rep is True:
            ck.violation(["sn-flags", "accepted"], f"spouses with contradictory joint-assessment flags are accepted: {cex}", {"cond": "check_sn_raises", "cex": {str(k): v for k, v in cex.items()}, "n": n})
        else:
            common.spurious("C20", f"check_sn_raises {cex}: {rep}")
    else:
        ck.inconclusive.append(f"check_sn_raises N={n}: {verdict}")
    xh.cleanup("C20")


def name_logic(ck, tier):
    """missing root columns / duplicate column names: set logic on concrete names, enumerated"""
    import datetime
    import pandas as pd
    from _gettsim import interface as I
    from gsv import symdag
    dag = symdag.Dag(datetime.date(2023, 7, 1))
    roots = {n for n in dag.graph.nodes if list(dag.graph.predecessors(n)) == []}
    data_roots = [r for r in roots if r not in dag.funcs]
    full = {r: pd.Series([0]) for r in data_roots}
    ck.obligations += 1
    ok = True
    try:
        I._fail_if_root_nodes_are_missing(roots, full, dag.funcs)
    except ValueError:
        ok = False
    for r in (data_roots if tier == "thorough" else data_roots[::5]):
        d = dict(full)
        del d[r]
        try:
            I._fail_if_root_nodes_are_missing(roots, d, dag.funcs)
            ok = False
        except ValueError:
            pass
    try:
        I._fail_if_duplicates_in_columns(pd.DataFrame([[1, 2]], columns=["a", "a"]))
        ok = False
    except ValueError:
        pass
    try:
        I._fail_if_pid_is_non_unique({"hh_id": pd.Series([1])})
        ok = False
    except ValueError:
        pass
    if ok:
        ck.discharged += 1
    else:
        ck.violation(["name-logic"], "a missing required column / duplicate column name / missing p_id is accepted", {"kind": "names"})
    ck.extra["missing_column_faults_enumerated"] = len(data_roots if tier == "thorough" else data_roots[::5])
    # conversion is announced by a warning
    ck.obligations += 1
    with warnings.catch_warnings(record=True) as w:
        warnings.simplefilter("always")
        I._convert_data_to_correct_types({"alter": pd.Series([30.0])}, {})
    if any("converted" in str(x.message) for x in w):
        ck.discharged += 1
    else:
        ck.violation(["no-warning"], "automatic type conversion is not announced by a warning", {"kind": "warn"})


def run(tier):
    ck = common.Check("C20", tier)
    sizes = [2, 3] if tier == "quick" else [1, 2, 3, 4]
    for n in sizes:
        try:
            input_checks(ck, n)
        except R.Unsupported as e:
            ck.add_inconclusive(f"input checks N={n}: not encodable ({e})")
        conversions(ck, min(n, 3))
    machine_number_lemma(ck, tier)
    name_logic(ck, tier)
    sn_flags(ck, tier)
    ck.bounds = {"rows": sizes, "fault_classes": ["duplicate p_id", "pointer to missing person", "pointer to oneself", "household-level input varies", "pair of pointer faults (N>=3)",
                                                  "contradictory joint-assessment flags", "missing required column", "duplicate column name", "lossy conversion"],
                 "values": "unconstrained integers / reals / booleans per cell"}
    ck.stubs = ["pandas.Series shim: is_unique, duplicated, isin, ==, ~, any/all, groupby(ids).transform('max'), astype, unique, copy, dtype (gsv.colsym.SymSeries)",
                "pandas.api.types.is_*_dtype evaluated on the shim's numpy dtype", "messages of exceptions are not built (error path cut at the raise)"]
    ck.assumptions = ["NaN cells are outside (V: finite inputs)", "exact arithmetic for cell values; machine-number effects are the subject of the separate FP/bit-vector lemma"]
    ck.rule = "one obligation per (check function, fault class, direction, N)"
    ck.explanation = ("Real input checks and type conversion executed on symbolic columns: z3 decides fault => raises and no fault => accepted per fault class and that accepted "
                      "conversions preserve every value; machine-number lemma for int64->float64; CrossHair for contradictory spouse flags in every row order.")
    return ck.finish()


def replay(path):
    d = json.load(open(path))["replay"]
    import pandas as pd
    from _gettsim import gettsim_typing as GT, interface as I
    if d.get("kind") == "groupsym":
        from gsv import groupsym
        bad = groupsym.replay(d)
        print("reproduces:", bad)
        return 1 if bad else 0
    if d["kind"] == "lossy":
        out = GT.convert_series_to_internal_type(pd.Series([d["v"]], dtype="int64"), float)
        print(d["v"], "->", repr(out.iloc[0]))
        return 1 if int(out.iloc[0]) != d["v"] else 0
    if d["kind"] == "nan":
        data = {"hh_id": pd.Series(d["data"]["hh_id"]),
                "bruttokaltmiete_m_hh": pd.Series([float("nan") if v is None else v for v in d["data"]["bruttokaltmiete_m_hh"]], dtype=float)}
        try:
            I._fail_if_group_variables_not_constant_within_groups(data)
            print("accepted")
            return 1
        except ValueError as e:
            print("rejected:", str(e)[:60])
            return 0
    if d["kind"] == "data":
        fn = getattr(I, d["fn"])
        try:
            fn({k: pd.Series(v) for k, v in d["data"].items()})
            raised = False
        except ValueError:
            raised = True
        print("raised", raised)
        return 1 if raised != ("accepted silently" in d["lab"]) is False else 0
    print("re-run the check")
    return 0
