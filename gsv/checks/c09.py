"""C09 -- rewriting a rule into array form preserves its meaning (translation validation).

For every internal policy function and every generated program of the documented restricted
grammar, the real `_make_vectorizable_ast` output is executed symbolically on arrays of length 2
(numpy.where / logical_* / maximum / minimum / sum / any / all / max / min as models) and compared
position-wise with the original executed on scalars.  z3 must refute
`exists inputs, position i: rewritten(inputs)[i] != original(inputs[i])` on inputs where neither
side raises.  A rewrite that raises at rewrite time or when called on arrays is "loud" and allowed.
Every model is replayed on the real `make_vectorizable(func, "numpy")` output with numpy arrays.
"""
from __future__ import annotations

import ast
import datetime
import importlib.util
import inspect
import itertools
import json
import os
import sys
import tempfile
import warnings

import numpy
import z3

from gsv import colsym, common, gt
from gsv import rulesym as R
from gsv.colsym import SymArray

N = 2


def rewritten_def(f):
    from _gettsim.vectorization import _make_vectorizable_ast
    tree = _make_vectorizable_ast(f, module="numpy")
    fdefs = [n for n in tree.body if isinstance(n, ast.FunctionDef)]
    return fdefs[0]


def run_ast(fdef, f, kwargs, ctx):
    """execute a FunctionDef node in f's globals with numpy available"""
    glob = dict(f.__globals__)
    glob["numpy"] = numpy

    def thunk():
        env = {k: (v._copy() if hasattr(v, "_copy") else v) for k, v in kwargs.items()}
        fr = R.Frame(f, glob, env, {})
        return fr.run(fdef.body)

    with R.using(ctx):
        try:
            return R.run_forked(thunk)
        except (R.PathEnd, R.Infeasible):
            return None


def sym_args(f, P):
    """({name: [scalar syms per position]}, params kwargs)"""
    pos, params = {}, {}
    for a in inspect.signature(f).parameters:
        if a.endswith("_params") and P is not None:
            if a[:-7] not in P:
                raise R.Unsupported(f"parameter group {a[:-7]} missing")
            params[a] = P[a[:-7]]
            continue
        ann = f.__annotations__.get(a)
        if ann not in (float, int, bool):
            raise R.Unsupported(f"argument {a}: annotation {ann}")
        pos[a] = [R.sym_for(f"{a}[{i}]", ann) for i in range(N)]
    return pos, params


def position_value(v, i):
    """value of the rewritten function at position i (numpy broadcasting of scalars)"""
    if isinstance(v, SymArray):
        if len(v.e) == N:
            return v.e[i]
        if len(v.e) == 1:
            return v.e[0]
        return None
    if R.is_sym(v) or R.pytype(v) is not None:
        return v
    return None


def check_function(ck, label, f, P, is_program=False, variant=None):
    from gsv import colsym
    colsym.ARRAY_TRUTH_IS_ERROR[0] = True
    try:
        return _check_function(ck, label, f, P, is_program, variant)
    finally:
        colsym.ARRAY_TRUTH_IS_ERROR[0] = False


def _check_function(ck, label, f, P, is_program=False, variant=None):
    """returns one of: 'equiv', 'loud-rewrite', 'loud-call', 'finding', 'not-encoded'"""
    from _gettsim.vectorization import TranslateToVectorizableError
    name = f.__name__
    try:
        fdef = rewritten_def(f)
    except TranslateToVectorizableError:
        return "loud-rewrite"
    except Exception as e:   # any other exception at rewrite time is loud as well
        ck.extra.setdefault("rewrite_exceptions", {})[label] = type(e).__name__
        return "loud-rewrite"
    try:
        pos, params = sym_args(f, P)
    except R.Unsupported as e:
        ck.not_encoded[label] = str(e)
        return "not-encoded"
    try:
        origs, octx = [], []
        for i in range(N):
            ctx = R.Ctx()
            v, ctx = R.run(f, kwargs={**params, **{a: s[i] for a, s in pos.items()}}, ctx=ctx)
            origs.append(v)
            octx.append(ctx)
        rctx = R.Ctx()
        arrs = {a: SymArray(s, f.__annotations__[a]) for a, s in pos.items()}
        rv = run_ast(fdef, f, {**params, **arrs}, rctx)
    except R.Unsupported as e:
        ck.not_encoded[label] = str(e)[:120]
        return "not-encoded"
    except Exception as e:   # noqa: BLE001 -- interpreter gap: counted, never a verdict
        ck.not_encoded[label] = f"interpreter error {type(e).__name__}: {e}"[:120]
        ck.inconclusive.append(f"equiv {label}: interpreter error")
        return "not-encoded"
    ck.functions |= octx[0].funcs
    rerr = R.zor(*[g for g, k, w in rctx.errors])
    if rv is None:
        # every array path raises: loud when called
        return "loud-call"
    outcome = "equiv"
    for i in range(N):
        ov = origs[i]
        pv = position_value(rv, i)
        if ov is None:
            continue
        if pv is None:
            ck.not_encoded[label] = "non-scalar result in array form"
            return "not-encoded"
        oerr = R.zor(*[g for g, k, w in octx[i].errors])
        try:
            neq = z3.Not(R.values_equal(ov, pv))
        except R.Unsupported as e:
            ck.not_encoded[label] = str(e)[:120]
            return "not-encoded"
        cons = [neq, R.zbool(R.znot(rerr)), R.zbool(R.znot(oerr))] + list(octx[i].assumptions) + list(rctx.assumptions)
        r, m = ck.oblige(f"equiv {label}[{i}]", cons, 60,
                         sample=None if len(ck.samples) >= 6 else {"function": label, "position": i,
                                                                    "rewritten": ast.unparse(fdef)[-300:]})
        if r == "sat":
            outcome = "finding"
            args = {a: [R.model_value(m, s[j]) for j in range(N)] for a, s in pos.items()}
            reproduced = replay_args(f, P, args)
            ck.extra["disagreements_checked"] = ck.extra.get("disagreements_checked", 0) + 1
            shape = rewrite_shape(f, fdef)
            key = ["silent-mistranslation", shape if is_program else name]
            what = (f"{label}: array form differs from the scalar function at position {reproduced['position']}: "
                    f"args={args} scalar={reproduced['scalar']} array={reproduced['array']} [{shape}]")
            if reproduced["differs"]:
                rp = {"kind": "program" if is_program else "internal", "name": name, "variant": variant,
                      "source": inspect.getsource(f) if is_program else None, "args": args}
                feats = shape.split("+")
                known_keys = {tuple(k["key"]) for k in ck.known}
                if is_program and len(feats) > 1 and all(("silent-mistranslation", ft) in known_keys for ft in feats):
                    # every mishandled construct in this program is individually a listed finding
                    for ft in feats:
                        ck.violation(["silent-mistranslation", ft], what, rp)
                else:
                    ck.violation(key, what, rp)
            else:
                common.spurious("C09", what)
            break
        if r == "unknown":
            outcome = "unknown"
    return outcome


def rewrite_shape(f, fdef):
    """features of the source that the rewrite is known to mishandle (for keying findings):
    a finding in a program with none of them, or with a new combination, is a new violation"""
    src = ast.parse(__import__("textwrap").dedent(inspect.getsource(f))).body[0]
    feats = set()
    for node in ast.walk(src):
        if isinstance(node, ast.If):
            b = node.body[0]
            if not node.orelse:
                if isinstance(b, ast.AugAssign):
                    feats.add("noelse-augassign")
            else:
                o = node.orelse[0]
                if isinstance(o, ast.If):
                    continue
                kinds = {type(b).__name__, type(o).__name__}
                if kinds == {"Assign", "AugAssign"}:
                    feats.add("mixed-assign-augassign")
                elif _target(b) != _target(o):
                    feats.add("difftarget")
                if isinstance(b, ast.AugAssign) and isinstance(o, ast.AugAssign) and type(b.op) is not type(o.op):
                    feats.add("augassign-op-differs")
        if (isinstance(node, ast.Call) and isinstance(node.func, ast.Name)
                and node.func.id in ("sum", "any", "all", "max", "min") and len(node.args) == 1):
            a = node.args[0]
            if isinstance(a, (ast.List, ast.Tuple, ast.GeneratorExp, ast.ListComp)):
                feats.add(f"reduce:{node.func.id}")
    return "+".join(sorted(feats)) or "none"


def _target(st):
    if isinstance(st, ast.Assign):
        return ast.unparse(st.targets[0])
    if isinstance(st, ast.AugAssign):
        return ast.unparse(st.target)
    return None


def replay_args(f, P, args):
    """real make_vectorizable output on numpy arrays vs the real scalar function"""
    from _gettsim.vectorization import make_vectorizable
    # exec happens in a copy of the module namespace so the module stays untouched
    import types
    g = types.FunctionType(f.__code__, dict(f.__globals__), f.__name__, f.__defaults__, f.__closure__)
    g.__annotations__ = dict(f.__annotations__)
    g.__module__ = f.__module__
    params = {a: P[a[:-7]] for a in inspect.signature(f).parameters if a.endswith("_params")} if P else {}
    res = {"differs": False, "position": None, "scalar": None, "array": None}
    with warnings.catch_warnings():
        warnings.simplefilter("ignore")
        try:
            vf = make_vectorizable(g, "numpy")
            arr = vf(**params, **{a: numpy.array(v) for a, v in args.items()})
        except Exception as e:
            res["array"] = f"raises {type(e).__name__}"
            return res
        arr = numpy.broadcast_to(numpy.asarray(arr), (N,)) if numpy.ndim(arr) <= 1 else arr
        scal = []
        for i in range(N):
            try:
                scal.append(gt.py(f(**params, **{a: v[i] for a, v in args.items()})))
            except Exception as e:
                scal.append(f"raises {type(e).__name__}")
    res["scalar"], res["array"] = scal, [gt.py(x) for x in numpy.asarray(arr).tolist()]
    for i in range(N):
        if isinstance(scal[i], str):
            continue
        a = res["array"][i]
        fa, fs = float(a), float(scal[i])
        if (fa != fa) != (fs != fs) or abs(fa - fs) > 1e-9 * max(1.0, abs(fs)):
            res["differs"], res["position"] = True, i
            break
    return res


# --------------------------------------------------------------------------------------
# grammar enumeration of programs in the documented restricted style
# --------------------------------------------------------------------------------------
CONDS = ["x > 1.0", "b", "x > 1.0 and y < 2.0", "b or x < 0.0", "not b", "0.0 <= x <= 1.0", "any([b, x > y])", "all([b, x > y])", "0.0 < x < y < 3.0", "not (x > y or b)"]
EXPRS = ["x", "y + 1.0", "2.0 * x", "min(x, y)", "max(x, 0.0)", "(x if b else y)", "sum([x, y])", "out + x"]
SIMPLE = ["x", "y + 1.0", "max(x, 0.0)"]


def programs(depth):
    """yield (name, source).  All take (x: float, y: float, b: bool) -> float."""
    k = 0
    head = "def {n}(x: float, y: float, b: bool) -> float:\n"
    conds = CONDS if depth >= 3 else CONDS[:6]
    exprs = EXPRS if depth >= 3 else EXPRS[:6]

    def emit(body):
        nonlocal k
        k += 1
        n = f"prog_{k}"
        return n, head.format(n=n) + body

    # 1. if/else with returns
    for c in conds:
        for e1, e2 in itertools.product(exprs[:5], SIMPLE[:2]):
            if "out" in e1 or "out" in e2:
                continue
            yield emit(f"    if {c}:\n        return {e1}\n    else:\n        return {e2}\n")
    # 2. if/else assignment, same target
    for c in conds:
        for e1, e2 in itertools.product(exprs, SIMPLE[:2]):
            yield emit(f"    out = y\n    if {c}:\n        out = {e1}\n    else:\n        out = {e2}\n    return out\n")
    # 3. else-less assignment / augmented assignment
    for c in conds:
        for e1 in exprs:
            yield emit(f"    out = y\n    if {c}:\n        out = {e1}\n    return out\n")
            if "out" not in e1:
                yield emit(f"    out = y\n    if {c}:\n        out += {e1}\n    return out\n")
                yield emit(f"    out = 0.0\n    if {c}:\n        out += {e1}\n    return out\n")
    # 4. augmented assignment in both branches / mixed
    for c in conds[:4]:
        for e1, e2 in itertools.product(SIMPLE, SIMPLE[:2]):
            yield emit(f"    out = y\n    if {c}:\n        out += {e1}\n    else:\n        out += {e2}\n    return out\n")
            yield emit(f"    out = y\n    if {c}:\n        out = {e1}\n    else:\n        out += {e2}\n    return out\n")
            yield emit(f"    out = y\n    if {c}:\n        out += {e1}\n    else:\n        out = {e2}\n    return out\n")
    # 5. elif chains
    for c1, c2 in itertools.product(conds[:4], conds[:3]):
        for e in SIMPLE:
            yield emit(f"    if {c1}:\n        out = {e}\n    elif {c2}:\n        out = y\n    else:\n        out = 0.0\n    return out\n")
            yield emit(f"    if {c1}:\n        return {e}\n    elif {c2}:\n        return y\n    else:\n        return 0.0\n")
    # 6. different targets in the two branches (pre-initialised so scalar code is well-defined)
    for c in conds[:4]:
        yield emit(f"    u = x\n    v = y\n    if {c}:\n        u = 1.0\n    else:\n        v = 2.0\n    return u + v\n")
    # 7. nested if in else / in body
    for c1, c2 in itertools.product(conds[:3], conds[:3]):
        yield emit(f"    if {c1}:\n        out = x\n    else:\n        if {c2}:\n            out = y\n        else:\n            out = 0.0\n    return out\n")
        if depth >= 3:
            yield emit(f"    if {c1}:\n        if {c2}:\n            out = y\n        else:\n            out = 0.0\n    else:\n        out = x\n    return out\n")
            yield emit(f"    out = x\n    if {c1}:\n        out += 1.0\n    if {c2}:\n        out += y\n    return out\n")
    # 8. conditional expressions and reductions as plain expressions
    for c in conds:
        yield emit(f"    return x if {c} else y\n")
        yield emit(f"    out = (x if {c} else (y if b else 0.0))\n    return out\n")
    for e in ["sum([x, y])", "max([x, y])", "min([x, y])", "max(x, y)", "min(x, y)", "sum((x, y, 1.0))"]:
        yield emit(f"    return {e}\n")
    for e in ["any([b, x > y])", "all([b, x > y])"]:
        yield emit(f"    if {e}:\n        out = 1.0\n    else:\n        out = 0.0\n    return out\n")
    # 9. chained comparisons, every pair of operators (a chain is `a op1 b and b op2 c`; numpy cannot evaluate it on arrays, so
    #    an untouched chain fails loudly; a rewrite must keep each link's own operator)
    ops = ["<", "<=", ">", ">="] if depth < 3 else ["<", "<=", ">", ">=", "==", "!="]
    for o1, o2 in itertools.product(ops, ops):
        yield emit(f"    if 0.0 {o1} x {o2} y:\n        return 1.0\n    else:\n        return 2.0\n")
    for o1, o2, o3 in (("<=", "<", "<="), ("<", "<=", "<"), (">=", ">", "<"), ("<", "<", "<=")):
        yield emit(f"    out = 0.0\n    if 0.0 {o1} x {o2} y {o3} 10.0:\n        out = x\n    return out\n")
        yield emit(f"    return x if 0.0 {o1} x {o2} y {o3} 10.0 else y\n")
    if depth >= 3:
        # else-branch holding a conditional expression; assignment from boolean operators
        for c in conds[:4]:
            yield emit(f"    if {c}:\n        out = x\n    else:\n        out = y if b else 0.0\n    return out\n")
            yield emit(f"    flag = {c}\n    if flag and b:\n        out = x\n    else:\n        out = y\n    return out\n")


def load_programs(depth):
    d = tempfile.mkdtemp(prefix="gsv_c09_")
    path = os.path.join(d, "gsv_user_progs.py")
    progs = list(programs(depth))
    with open(path, "w") as fh:
        fh.write("import numpy\n\n")
        for n, src in progs:
            fh.write(src + "\n\n")
    spec = importlib.util.spec_from_file_location("gsv_user_progs", path)
    mod = importlib.util.module_from_spec(spec)
    sys.modules["gsv_user_progs"] = mod
    spec.loader.exec_module(mod)
    return mod, [n for n, _ in progs], d


def variants_of(f, tier):
    """[(label, P)]: parameter variants inside the function's validity period -- one per distinct structural
    signature of the parameters it reads (quick: keys present, types, zero / non-zero) or per distinct value
    (thorough)"""
    info = getattr(f, "__info__", {}) or {}
    lo = max(info["start_date"], datetime.date(1985, 1, 1)) if info.get("start_date") else datetime.date(1985, 1, 1)
    vs = gt.param_variants(f, lo, info.get("end_date"), abstract=(tier == "quick"))
    return [(lab, {a[: -len("_params")]: v for a, v in kw.items()}) for lab, kw in vs]


RANK = {"finding": 5, "unknown": 4, "equiv": 3, "loud-call": 2, "loud-rewrite": 1, "not-encoded": 0}


def _chunk_internal(ck, names):
    allf = gt.all_internal_functions()
    counts = {}
    n_int = n_var = 0
    for name in names:
        f = allf[name]
        try:
            vs = variants_of(f, ck.tier)
        except Exception as e:   # noqa: BLE001
            ck.not_encoded[name] = f"no parameter variants: {type(e).__name__}: {e}"[:100]
            continue
        if not vs:
            ck.not_encoded[name] = "no date at which its parameter groups load"
            continue
        n_int += 1
        worst = None
        for lab, P in vs:
            n_var += 1
            out = check_function(ck, f"{name}@{lab}" if lab else name, f, P, variant=lab or None)
            ck.nontrivial.add(("internal", name, out))
            if worst is None or RANK.get(out, 0) > RANK.get(worst, 0):
                worst = out
        counts[worst] = counts.get(worst, 0) + 1
    ck.extra["internal_functions"] = {"checked": n_int, "function_x_parameter_variant": n_var, **counts}


def _chunk_programs(ck, arg):
    depth, part, parts = arg
    mod, names, tmpd = load_programs(depth)
    pcounts = {}
    try:
        mine = names[part::parts]
        for n in mine:
            f = getattr(mod, n)
            out = check_function(ck, f"program {n}", f, None, is_program=True)
            pcounts[out] = pcounts.get(out, 0) + 1
            ck.nontrivial.add(("program", rewrite_shape(f, None), out))
    finally:
        import shutil
        shutil.rmtree(tmpd, ignore_errors=True)
    ck.extra["generated_programs"] = {"checked": len(mine), **pcounts}


def _merge_counts(ck, key):
    """run_parallel merges dict extras by update(); counters need summing"""
    return ck.extra.get(key, {})


def run(tier):
    ck = common.Check("C09", tier, level="translation_validation")
    allf = gt.all_internal_functions()
    names = [n for n, f in allf.items() if not gt.is_skipvec(f)]
    depth = 2 if tier == "quick" else 3
    J = common.JOBS
    parts_i = [names[i::J] for i in range(J) if names[i::J]]
    # counters of the workers are summed here (run_parallel only merges)
    import multiprocessing
    tot_i, tot_p = {}, {}
    sub = common.Check("C09", tier, level="translation_validation")
    for chunk_fn, items, tot, key in ((_chunk_internal, parts_i, tot_i, "internal_functions"),
                                      (_chunk_programs, [(depth, k, J) for k in range(J)], tot_p, "generated_programs")):
        args = [(ck.pid, ck.tier, ck.level, chunk_fn, it) for it in items]
        with multiprocessing.get_context("fork").Pool(J) as pool:
            parts = pool.map(common._run_part, args, chunksize=1)
        for st in parts:
            if st["error"]:
                raise common.HarnessError(st["error"])
            for k, v in st["extra"].pop(key, {}).items():
                tot[k] = tot.get(k, 0) + v
            dc = st["extra"].pop("disagreements_checked", 0)
            ck.extra["disagreements_checked"] = ck.extra.get("disagreements_checked", 0) + dc
            ck.obligations += st["obligations"]
            ck.discharged += st["discharged"]
            ck.inconclusive += st["inconclusive"]
            ck.samples += st["samples"]
            ck.queries += st["queries"]
            ck.solver_time += st["solver_time"]
            ck.not_encoded.update(st["not_encoded"])
            ck.violations += st["violations"]
            for kk, w in st["known_hits"]:
                if repr(kk) not in {repr(a) for a, _ in ck.known_hits}:
                    ck.known_hits.append((kk, w))
            ck.nontrivial |= set(st["nontrivial"])
            ck.functions |= set(st["functions"])
            common.SPURIOUS.extend(st["spurious"])
            for k2, v2 in st["extra"].items():
                if isinstance(v2, dict):
                    ck.extra.setdefault(k2, {}).update(v2)
    n_int = tot_i.get("checked", 0)
    n_prog = tot_p.get("checked", 0)
    ck.extra["programs"] = n_int + n_prog
    ck.extra["internal_functions"] = tot_i
    ck.extra["generated_programs"] = {"grammar_depth": depth, **tot_p}
    ck.extra.setdefault("disagreements_checked", 0)
    ck.bounds = {"array_length": N, "grammar_depth": depth, "internal_functions": n_int, "generated_programs": n_prog,
                 "parameter_variants": "per function, one date per distinct structural signature of the parameters it reads (keys, types, zero/non-zero) in quick, per distinct value in thorough; within the function's validity period from 1985",
                 "function_x_parameter_variant": tot_i.get("function_x_parameter_variant", 0)}
    ck.stubs = ["numpy.where/logical_*/maximum/minimum element-wise; numpy.sum/any/all/max/min reduce over all elements (axis=None); "
                "array division by zero does not raise; truth value of an array raises"]
    ck.assumptions = ["inputs on which the original scalar function raises impose no requirement",
                      "side-effect clause (module left unaffected) is outside the solver claim"]
    ck.rule = "one obligation per (function or generated program, array position); distinct by (kind, function or rewrite shape, outcome)"
    ck.explanation = ("Translation validation of the real _make_vectorizable_ast: original and rewritten ASTs executed symbolically, z3 refutes any input "
                      "on which a position of the array form differs from the scalar function without either side raising.")
    return ck.finish()


def replay(path):
    d = json.load(open(path))["replay"]
    if d["kind"] == "internal":
        f = gt.all_internal_functions()[d["name"]]
        if d.get("variant"):
            date = datetime.date.fromisoformat(d["variant"])
            P = {a[: -len("_params")]: gt._group_at(a[: -len("_params")], date)
                 for a in inspect.signature(f).parameters if a.endswith("_params")}
        else:
            P, _ = gt.env(gt.function_date_for(f))
    else:
        tmp = tempfile.mkdtemp(prefix="gsv_c09r_")
        p = os.path.join(tmp, "gsv_user_progs.py")
        open(p, "w").write("import numpy\n\n" + d["source"])
        spec = importlib.util.spec_from_file_location("gsv_user_progs", p)
        mod = importlib.util.module_from_spec(spec)
        spec.loader.exec_module(mod)
        f = getattr(mod, d["name"])
        P = None
    res = replay_args(f, P, d["args"])
    print(json.dumps(res, default=str))
    return 1 if res["differs"] else 0
