"""C01 -- results do not depend on the order of rows in the input data.

Row order can matter only in (i) the grouping functions, (ii) group aggregations, (iii) sum_by_p_id,
(iv) join_numpy and the skip_vectorization rules, (v) the output dtype numpy.vectorize infers from the
first row, (vi) result assembly.  Everything else applies a scalar rule per row.
(i)   CrossHair on the real groupings.py: partition(F(pi.x)) = pi.partition(F(x)) for all N! orders.
(ii)-(iv) colsym: the real whole-column code run on a symbolic column and on each permutation of it;
      z3 refutes any differing position.
(v)   typed symbolic execution of every active rule (shared with C03).
(vi)  pandas-level assembly / index labels: outside the solver claim.
"""
from __future__ import annotations

import datetime
import itertools
import json
import random

import numpy
import z3

from gsv import colsym, common, gt, grouping_checks as GC, xh
from gsv import rulesym as R
from gsv.checks import c03, c11, c12
from gsv.colsym import SymArray

ORDER_CONDS = ["check_eg", "check_ehe", "check_sn", "check_bg", "check_wthh"]


def perm_arr(a, pi):
    return SymArray([a.e[j] for j in pi], a.dtype)


def column_code(ck, n):
    import _gettsim.aggregation_numpy as A
    from _gettsim.shared import join_numpy
    perms = [list(p) for p in itertools.permutations(range(n))][1:]
    gid = c11.ints("g", n)
    pre_g = [g.t >= 0 for g in gid.e] + [g.t <= 10 ** 9 for g in gid.e]
    cases = [("grouped_count", A.grouped_count, lambda: {"group_id": gid}, pre_g)]
    for kind, col in (("sum", c11.reals("v", n)), ("sum", c11.bools("v", n)), ("mean", c11.reals("v", n)), ("max", c11.reals("v", n)), ("min", c11.ints("v", n)),
                      ("any", c11.bools("v", n)), ("all", c11.bools("v", n))):
        cases.append((f"grouped_{kind}[{col.dtype}]", getattr(A, f"grouped_{kind}"), (lambda col=col: {"column": col, "group_id": gid}), pre_g))
    ptr = c11.ints("ptr", n)
    # sparse unsorted labels, and the running number 0..n-1 (every row order of it is then a permutation of 0..n-1)
    for labs in (c11.LABELS[n][1], c11.LABELS[n][0]):
        valid = [z3.Or([p.t < 0] + [p.t == q for q in labs]) for p in ptr.e]
        cases.append((f"sum_by_p_id{labs}", A.sum_by_p_id,
                      (lambda labs=labs: {"column": c11.reals("v", n), "p_id_to_aggregate_by": ptr, "p_id_to_store_by": SymArray(list(labs), int)}), valid))
    fk, pk = c11.ints("fk", n), c11.ints("pk", n)
    pkd = [z3.Distinct([p.t for p in pk.e])] if n > 1 else []
    fkok = [z3.Or([f.t < 0] + [f.t == p.t for p in pk.e]) for f in fk.e]
    cases.append(("join_numpy", join_numpy, lambda: {"foreign_key": fk, "primary_key": pk, "target": c11.reals("t", n), "value_if_foreign_key_is_missing": 0.0},
                  pkd + fkok + [p.t >= 0 for p in pk.e]))
    # the skip_vectorization rules (joins on p_id)
    from _gettsim.functions_loader import load_internal_functions
    for name, f in load_internal_functions().items():
        if gt.is_skipvec(f):
            cases.append((f"skipvec {name}", f, None, None))
            cases.append((f"skipvec {name} [p_id 0..n-1]", f, None, "running"))
    for label, f, mk, pre in cases:
        try:
            if mk is None:
                kw, pre = skipvec_args(f, n, running=(pre == "running"))
            else:
                kw = mk()
            base, ctx = c11.run_real(f, **kw)
            errs = [g for g, k, w in ctx.errors]
            if base is None:
                ck.add_inconclusive(f"{label}: raises on every path")
                continue
            bad = []
            for pi in perms:
                kw2 = {k: (perm_arr(v, pi) if isinstance(v, SymArray) else v) for k, v in kw.items()}
                out, ctx2 = c11.run_real(f, **kw2)
                ck.functions |= ctx2.funcs
                for pos, j in enumerate(pi):
                    bad.append(z3.Not(R.values_equal(out.e[pos], base.e[j])))
        except R.Unsupported as e:
            ck.add_inconclusive(f"order {label} N={n}: {e}")
            continue
        cons = list(pre) + ([z3.Not(z3.Or(errs))] if errs else []) + [z3.Or(bad)]
        r, m = ck.oblige(f"order-equivariant {label} N={n}", cons, 120,
                         sample={"function": label, "rows": n, "permutations": len(perms), "claim": "F(pi.x)[k] == F(x)[pi(k)] for every position and every permutation"})
        ck.nontrivial.add((label, n))
        if r == "sat":
            report(ck, label, f, kw, m, perms)


def skipvec_args(f, n, running=False):
    """symbolic columns for a skip_vectorization rule; p_id concrete labels, pointers symbolic"""
    import inspect
    import typing
    labs = c11.LABELS[n][0] if running else c11.LABELS[n][1]
    kw, pre = {}, []
    for a in inspect.signature(f).parameters:
        ann = f.__annotations__.get(a)
        ty = (typing.get_args(ann) or [ann])[0]
        if a == "p_id":
            kw[a] = SymArray(list(labs), int)      # concrete unsorted sparse labels; pointers stay symbolic
        elif a.startswith("p_id_"):
            kw[a] = c11.ints(a, n)
        elif a.endswith("_params"):
            kw[a] = gt.env(datetime.date(2023, 7, 1))[0][a[:-7]]
        elif ty is bool:
            kw[a] = c11.bools(a, n)
        elif ty is int:
            kw[a] = c11.ints(a, n)
        else:
            kw[a] = c11.reals(a, n)
    if "p_id" in kw:
        for a in kw:
            if a.startswith("p_id_"):
                pre += [z3.Or([x.t < 0] + [x.t == p for p in labs]) for x in kw[a].e]
    return kw, pre


def report(ck, label, f, kw, m, perms):
    conc = {}
    for k, v in kw.items():
        if isinstance(v, SymArray):
            conc[k] = numpy.array([R.model_value(m, x) for x in v.e], dtype=v.dtype)
        else:
            conc[k] = v
    def call(kw2):
        try:
            return numpy.asarray(f(**kw2))
        except Exception as e:   # noqa: BLE001 -- raising in one row order only is a dependence on the order
            return f"raises {type(e).__name__}: {e}"

    base = call(conc)
    for pi in perms:
        out = call({k: (v[list(pi)] if isinstance(v, numpy.ndarray) else v) for k, v in conc.items()})
        if isinstance(base, str) and isinstance(out, str):
            continue
        if isinstance(base, str) or isinstance(out, str):
            differs, shown = True, (out if isinstance(out, str) else out.tolist(), base if isinstance(base, str) else base[list(pi)].tolist())
        else:
            differs, shown = not numpy.allclose(out.astype(float), base[list(pi)].astype(float), rtol=1e-9, atol=1e-12), (out.tolist(), base[list(pi)].tolist())
        if differs:
            ck.violation(["column-code", label.split("[")[0]], f"{label}: result depends on the row order: {({k: v.tolist() for k, v in conc.items() if isinstance(v, numpy.ndarray)})} order {pi}: {shown[0]} vs {shown[1]}",
                         {"kind": "column", "label": label})
            return
    common.spurious("C01", f"{label}: order model does not reproduce")


def run(tier):
    ck = common.Check("C01", tier)
    n = 3 if tier == "quick" else 4
    # (i) groupings -- CrossHair
    # the part of the statement that lives in pandas (row permutation, arbitrary index labels, debug output,
    # losslessly converted dtypes): the concrete integration witness shared with C04 -- not a solver verdict
    from gsv.checks import c04
    c04.witnesses(ck)
    excl = GC.known_fg_classes(ck, "C01")
    from gsv import fgsym, groupsym
    groupsym.run_all(ck, n)
    fgsym.run_obligations(ck, "C01", n, excl, with_orders=True, with_relabel=False, sep_na=None, timeout=300)
    # CrossHair as second engine on the cheap conditions (N=3)
    res = GC.run_conditions(ck, "C01", 3, ["check_eg", "check_sn", "check_wthh"], 150, excl, ["check_eg_twin", "check_sn_twin"])
    for cond, (verdict, cex, secs, tail) in sorted(res.items()):
        ck.obligations += 1
        ck.nontrivial.add(cond)
        ck.samples.append({"condition": cond, "persons": n, "row_orders": "all N!", "verdict": verdict, "seconds": secs})
        if verdict == "confirmed":
            ck.discharged += 1
        elif verdict == "counterexample":
            rep = c12.replay_cex(cond, cex, n)
            if rep is True:
                args = [cex[i] for i in sorted(k for k in cex if isinstance(k, int))]
                cls = GC.classify_fg(*args) if cond.startswith("check_fg") and len(args) == 5 else []
                ck.violation([cond, ",".join(cls) or "unclassified"], f"{cond}: partition depends on the row order (or unit definition violated) for N={n}: {args} classes={cls}",
                             {"cond": cond, "cex": {str(k): v for k, v in cex.items()}, "n": n})
            else:
                common.spurious("C01", f"{cond}: {cex} does not reproduce ({rep})")
        else:
            ck.inconclusive.append(f"{cond} (N={n}): {verdict}")
    xh.cleanup("C01")
    # (ii)-(iv) whole-column code
    for k in ([2, 3] if tier == "quick" else [2, 3, 4]):
        column_code(ck, k)
    # (v) dtype inferred from the first row
    rnd = random.Random(common.SEED)
    done = set()
    dates = gt.QUICK_DATES[:2] if tier == "quick" else gt.QUICK_DATES
    for date in dates:
        P, F = gt.env(date)
        for name, f in F.items():
            if gt.is_rule(f):
                c03.analyse_rule(ck, name, f, P, date, done, rnd)
    ck.bounds = {"rows": n, "row_orders": "all N! permutations", "dates_for_dtype_analysis": [str(d) for d in dates],
                 "outside": "result assembly (_prepare_results) and arbitrary DataFrame index labels: pandas behaviour; N>4 rows"}
    ck.stubs = ["numpy.asarray -> list inside groupings (CrossHair)", "numpy / numpy_groupies models (colsym), conformance-tested in C11"]
    ck.assumptions = ["valid pointer structures as in C12", "group ids >= 0"]
    ck.rule = "one obligation per grouping condition, per (column function, N) and per rule with data-dependent result type"
    ck.explanation = ("Metamorphic: the real code executed symbolically on a population and on every permutation of it; CrossHair/z3 must confirm equal partitions, "
                      "z3 must refute differing positions of aggregations / pointer sums / joins; the dtype-from-first-row effect is decided per rule.")
    return ck.finish()


def replay(path):
    d = json.load(open(path))["replay"]
    if d.get("witness"):
        from gsv.checks import c04
        return c04.replay(path)
    if "cond" in d:
        cex = {(int(k) if k.isdigit() else k): v for k, v in d["cex"].items()}
        rep = c12.replay_cex(d["cond"], cex, d["n"])
        print(rep)
        return 1 if rep is True else 0
    if d.get("kind") == "groupsym":
        from gsv import groupsym
        bad = groupsym.replay(d)
        print("reproduces:", bad)
        return 1 if bad else 0
    if d.get("kind") == "fgsym":
        from gsv import fgsym
        if d.get("variant"):
            fgsym.set_variant(d["variant"])
        return 1 if fgsym.reproduces(d["name"], d["vals"], d["n"], d.get("sep_na")) else 0
    if d.get("kind") == "fg":
        bad, pi = GC.fg_order_dependent(d["w"])
        print(bad, pi)
        return 1 if bad else 0
    if "rows" in d:
        return c03.replay(path)
    print("re-run the check")
    return 0
