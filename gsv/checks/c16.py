"""C16 -- outputs are finite, non-negative and within statutory caps.

Inductive sign invariants over the real DAG of the default targets per date class (one pass in
topological order = greatest fixpoint on a DAG): a node keeps the fact `>= 0` iff z3 proves it from
the facts of its parents by symbolic execution of the rule's real source.  Default targets that lose
the fact locally are re-proved relationally on the whole cone from root inputs of a single-person
household; a model there is replayed on the real API.  Caps are local / small-slice obligations.
Finiteness = no reachable error guard (C08) and no non-finite constant in a result term.
"""
from __future__ import annotations

import datetime
import inspect
import json

import numpy
import z3

from gsv import common, gt, rulebank, symdag, validity
from gsv import rulesym as R

EPS = z3.RealVal("1/1000000")


def date_classes(tier):
    if tier == "quick":
        return [datetime.date(2015, 1, 1), datetime.date(2019, 7, 1), datetime.date(2022, 10, 1), datetime.date(2024, 1, 1)], None
    from gsv import dateprobe
    regs, st = dateprobe.explore(datetime.date(2015, 1, 1), max(dateprobe.yaml_seed_dates()), check_endpoints=False)
    seen, out = set(), []
    for r in regs:
        if r.fp and r.fp not in seen:
            seen.add(r.fp)
            out.append(r.rep)
    return out, st


def input_nonneg(name, ty):
    if ty is bool:
        return True
    if name in validity.FREE_SIGN:
        return False
    return True


def fixpoint(ck, dag, date, memo):
    """facts[n] = True iff n >= 0 is proved from the parents' facts"""
    from _gettsim.config import TYPES_INPUT_VARIABLES
    facts, encs = {}, {}
    for n in dag.topo():
        if n.endswith("_params"):
            continue
        k = dag.kind(n)
        ty = dag.return_type(n)
        if k == "input":
            facts[n] = input_nonneg(n, TYPES_INPUT_VARIABLES.get(n))
            continue
        if ty is bool:
            facts[n] = True
            continue
        if k in ("timeconv", "agg_group", "agg_pid"):
            ps = [p for p in dag.parents(n) if not p.endswith("_id") and not p.startswith("p_id")]
            # sums / means / extrema / conversions by positive factors keep the sign; counts are >= 0
            facts[n] = all(facts.get(p, False) for p in ps)
            continue
        if k == "grouping":
            facts[n] = True
            continue
        if k in ("skipvec", "other"):
            facts[n] = False          # whole-column rules: no sign fact assumed
            continue
        enc = rulebank.encode_rule(dag, n)
        encs[n] = enc
        if enc.reason or enc.term is None or z3.is_bool(enc.term):
            facts[n] = enc.term is not None and z3.is_bool(enc.term)
            if enc.reason:
                ck.not_encoded[getattr(enc.f, "__name__", n)] = enc.reason
            continue
        ck.functions |= enc.funcs
        pre = rulebank.local_pre(enc)
        for a, s in enc.syms.items():
            if facts.get(a, False) and s.ty is not bool:
                pre.append(s.t >= 0)
        errs = [g for g, kk, w in enc.errors]
        if errs:
            pre.append(z3.Not(z3.Or(errs)))
        sig = (getattr(enc.f, "__name__", n), str(enc.term), tuple(sorted(a for a in enc.syms if facts.get(a, False))))
        if sig in memo:
            facts[n] = memo[sig]
            continue
        r, m = ck.solve(pre + [enc.term < 0], 30)
        facts[n] = memo[sig] = (r == "unsat")
    return facts, encs


def check_date(ck, date, memo, seen):
    from _gettsim.config import DEFAULT_TARGETS
    validity.use_params(gt.env(date)[0])
    dag = symdag.Dag(date)
    facts, encs = fixpoint(ck, dag, date, memo)
    cone = None
    for t in DEFAULT_TARGETS:
        if t not in dag.graph.nodes:
            continue
        enc = encs.get(t)
        # (the cone below a target differs by date even where the target rule itself does not)
        sig = ("nonneg", t, str(date), facts.get(t))
        ck.obligations += 1
        if facts.get(t, False):
            ck.discharged += 1
            ck.nontrivial.add(sig)
            if len(ck.samples) < 6:
                ck.samples.append({"target": t, "date": str(date), "claim": ">= 0 for all valid inputs", "proved": "inductively from the parents' facts"})
            continue
        if sig in seen:
            ck.obligations -= 1
            continue
        seen.add(sig)
        ck.nontrivial.add(sig)
        # not inductive with sign facts alone: relational proof on the cone from root inputs
        try:
            if cone is None:
                cone = rulebank.SingleCone(dag)
            v, ctxn = cone.value(t)
            term = R.term_of(v.e[0] if hasattr(v, "e") else gt.py(numpy.asarray(v).reshape(-1)[0]), float)   # (a column that is constant for one person comes back concrete)
        except R.Unsupported as e:
            ck.inconclusive.append(f"{t}@{date}: not inductive and cone not encodable ({e})")
            continue
        vpre = validity.inputs(cone.syms) + cone.ancestors_ok(t)
        r, m = rulebank.ladder(ck, vpre, term < -EPS, cone.syms, (20, 120))
        if len(ck.samples) < 10:
            ck.samples.append({"target": t, "date": str(date), "claim": ">= 0", "proved": f"cone from root inputs (single-person household): {r}"})
        if r == "unsat":
            # also not negative for the multi-person household templates?
            hit, undecided = template_negative(ck, dag, date, t)
            if hit:
                continue
            # proved for the single-person household; the household templates are an additional search
            # with a time budget -- templates that stayed undecided are listed, not claimed
            n_templates = len(TEMPLATES_QUICK if ck.tier == "quick" else TEMPLATES)
            if undecided and len(undecided) == n_templates:
                # nothing beyond the single person was decided for a target that is not inductively non-negative
                ck.inconclusive.append(f"{t}@{date}: non-negative for a single person; no multi-person household template could be decided ({undecided})")
            else:
                ck.discharged += 1
            if undecided:
                ck.extra.setdefault("template_cones_undecided", []).append(f"{t}@{date}: {undecided}")
        elif r == "sat":
            row = {a: R.model_value(m, s) for a, s in cone.syms.items()}
            from gsv.checks import c08
            rep = c08.replay_row(date, t, row)
            what = f"{t} at {date} is negative ({rep.get('value')}) for a valid single person {c08.compact(row)}"
            if rep.get("raises") is None and rep.get("value") is not None and float(rep["value"]) < -5e-7:
                ck.violation(["negative", t], what, {"kind": "row", "date": str(date), "node": t, "row": row})
            else:
                common.spurious("C16", what + f" (replay {rep})")
        else:
            ck.inconclusive.append(f"{t}@{date}: non-negativity on the cone: {r}")
    caps(ck, dag, date, facts, seen)
    ck.extra.setdefault("nodes_with_sign_fact", {})[str(date)] = f"{sum(1 for v in facts.values() if v)}/{len(facts)}"


TEMPLATES = [(2, 1), (1, 3), (2, 5), (2, 10)]
TEMPLATES_QUICK = [(1, 3), (2, 10)]


def template_negative(ck, dag, date, t):
    """re-ask `target < 0` on cones from root inputs of household templates; a model is replayed.
    returns (violation reported, [templates that stayed undecided])"""
    import warnings
    undecided = []
    for na, nc in (TEMPLATES_QUICK if ck.tier == "quick" else TEMPLATES):
        try:
            cone = rulebank.TemplateCone(dag, na, nc, date.year)
            v, ctxn = cone.value(t)
        except (R.Unsupported, ValueError, KeyError) as e:
            ck.extra.setdefault("template_cone_not_encoded", {})[f"{t}/{na}+{nc}"] = str(e)[:80]
            undecided.append(f"{na}+{nc}")
            continue
        # one query per person (a disjunction over all persons of a 12-person cone is much harder);
        # every model is replayed through the real API, so the ancestors' error guards need not be
        # part of the query
        r, m = "unsat", None
        vpre = cone.valid()
        for x in v.e:
            ri, mi = rulebank.ladder(ck, vpre, R.term_of(x, float) < -EPS, cone.syms, (10, 25))
            if ri == "sat":
                r, m = ri, mi
                break
            if ri != "unsat":
                r = ri
        if r == "unsat":
            continue
        if r != "sat":
            undecided.append(f"{na}+{nc}")
            continue
        df = cone.dataframe(m)
        from gettsim import compute_taxes_and_transfers
        P, F = gt.env(date)
        with warnings.catch_warnings():
            warnings.simplefilter("ignore")
            try:
                out = compute_taxes_and_transfers(df, P, F, targets=[t])
                vals = [float(x) for x in out[t].tolist()]
            except Exception as e:   # noqa: BLE001
                vals = f"raises {type(e).__name__}"
        what = f"{t} at {date} is negative for a valid household of {na} adult(s) and {nc} child(ren): {vals}"
        if not isinstance(vals, str) and min(vals) < -5e-7:
            ck.violation(["negative", t], what, {"kind": "household", "date": str(date), "node": t, "adults": na, "children": nc,
                                                 "data": {c: [x.item() if hasattr(x, "item") else x for x in df[c].tolist()] for c in df.columns}})
            return True, undecided
        common.spurious("C16", what)
    return False, undecided


def caps(ck, dag, date, facts, seen):
    """caps the parameters / priority rules encode"""
    local = [("arbeitsl_geld_2_m_bg", "arbeitsl_geld_2_vor_vorrang_m_bg"),
             ("wohngeld_m_wthh", "wohngeld_anspruchshöhe_m_wthh"),
             ("kinderzuschl_m_bg", "_kinderzuschl_nach_vermög_check_m_bg")]
    for node, bound in local:
        if node not in dag.funcs:
            continue
        enc = rulebank.encode_rule(dag, node)
        if enc.reason or bound not in enc.syms:
            ck.add_inconclusive(f"cap {node}: {enc.reason or 'bound is not a parent'}")
            continue
        sig = ("cap", node, str(enc.term))
        if sig in seen:
            continue
        seen.add(sig)
        pre = rulebank.local_pre(enc) + [enc.syms[bound].t >= 0]
        r, m = ck.oblige(f"cap {node} <= {bound} @{date}", pre + [enc.term > enc.syms[bound].t + EPS], 60,
                         sample={"claim": f"{node} <= {bound}", "date": str(date)})
        ck.nontrivial.add(sig)
        if r == "sat":
            report_cap(ck, dag, date, node, bound, enc, m)
    # Elterngeld <= maximum + bonuses (two-node slice)
    if "elterngeld_m" in dag.funcs and "elterngeld_anspruchshöhe_m" in dag.funcs:
        try:
            P = dag.params
            order, fr = dag.cone(["elterngeld_m"], stop=lambda n: n not in ("elterngeld_m", "elterngeld_anspruchshöhe_m"))
            frontier = {n: dag.free_symbol(n) for n in fr}
            ctx = R.Ctx()
            v = dag.eval_scalar("elterngeld_m", frontier, {}, ctx)
            sig = ("cap", "elterngeld_m", str(R.term_of(v, float)))
            if sig not in seen:
                seen.add(sig)
                bon = [frontier[b].t for b in ("elterngeld_geschwisterbonus_m", "elterngeld_mehrlingsbonus_m") if b in frontier]
                cap = R.const_real(float(P["elterngeld"]["höchstbetrag"])) + z3.Sum(bon) if bon else R.const_real(float(P["elterngeld"]["höchstbetrag"]))
                pre = [s.t >= 0 for n, s in frontier.items() if s.ty is not bool]
                r, m = ck.oblige(f"cap elterngeld_m <= höchstbetrag + bonuses @{date}", pre + [R.term_of(v, float) > cap + EPS], 60,
                                 sample={"claim": "elterngeld_m <= höchstbetrag + Geschwisterbonus + Mehrlingsbonus", "date": str(date)})
                ck.nontrivial.add(sig)
                if r == "sat":
                    row = {n: R.model_value(m, s_) for n, s_ in frontier.items()}
                    out = concrete_slice(dag, "elterngeld_m", row)
                    capv = float(P["elterngeld"]["höchstbetrag"]) + sum(row.get(b, 0.0) for b in ("elterngeld_geschwisterbonus_m", "elterngeld_mehrlingsbonus_m"))
                    what = f"elterngeld_m = {out} exceeds höchstbetrag + bonuses = {capv} at {date} for {row}"
                    if out > capv + 5e-7:
                        ck.violation(["cap", "elterngeld_m"], what, {"kind": "slice", "date": str(date), "node": "elterngeld_m", "row": row, "cap": capv})
                    else:
                        common.spurious("C16", what)
        except (R.Unsupported, KeyError) as e:
            ck.add_inconclusive(f"cap elterngeld_m: {e}")
    # pension / unemployment insurance: employee contribution <= rate x ceiling (slice from the wage)
    for b, rate_key in (("ges_rentenv", "ges_rentenv"), ("arbeitsl_v", "arbeitsl_v")):
        node = f"{b}_beitr_arbeitnehmer_m"
        ceil = "_ges_rentenv_beitr_bemess_grenze_m"
        if node not in dag.graph.nodes:
            continue
        try:
            order, fr = dag.cone([node, ceil])
            frontier = {n: dag.free_symbol(n) for n in fr}
            ctx = R.Ctx()
            cache = {}
            v = dag.eval_scalar(node, frontier, cache, ctx)
            c = dag.eval_scalar(ceil, frontier, cache, ctx)
            rate = dag.params["sozialv_beitr"]["beitr_satz"][rate_key]
            rate = rate if not isinstance(rate, dict) else max(x for x in rate.values() if isinstance(x, (int, float)))
            sig = ("cap", node, str(R.term_of(v, float)))
            if sig in seen:
                continue
            seen.add(sig)
            errs = [g for g, k, w in ctx.errors]
            pre = validity.inputs(frontier) + ([z3.Not(z3.Or(errs))] if errs else [])
            r, m = ck.oblige(f"cap {node} <= rate x ceiling @{date}", pre + [R.term_of(v, float) > R.const_real(float(rate)) * R.term_of(c, float) + EPS], 60,
                             sample={"claim": f"{node} <= {rate} x contribution ceiling", "date": str(date)})
            ck.nontrivial.add(sig)
            if r == "sat":
                row = {n: R.model_value(m, s_) for n, s_ in frontier.items()}
                out, cv = concrete_slice(dag, node, row), concrete_slice(dag, ceil, row)
                what = f"{node} = {out} exceeds {rate} x ceiling {cv} at {date} for {c08_compact(row)}"
                if out > float(rate) * cv + 5e-7:
                    ck.violation(["cap", node], what, {"kind": "slice", "date": str(date), "node": node, "row": row, "cap": float(rate) * cv})
                else:
                    common.spurious("C16", what)
        except (R.Unsupported, KeyError, TypeError) as e:
            ck.add_inconclusive(f"cap {node}: {e}")


def c08_compact(row):
    return {k: v for k, v in row.items() if v not in (0, 0.0, False, -1)}


def concrete_slice(dag, n, data):
    """evaluate node n with the real callables from concrete frontier values (1 row)"""
    import numpy
    memo = {}

    def ev(k):
        if k in memo:
            return memo[k]
        if k in data:
            memo[k] = numpy.array([data[k]])
        else:
            memo[k] = numpy.asarray(dag.funcs[k](**{p: ev(p) for p in dag.parents(k)}))
        return memo[k]
    return float(numpy.ravel(ev(n))[0])


def report_cap(ck, dag, date, node, bound, enc, m):
    import numpy
    row = {a: R.model_value(m, s) for a, s in enc.syms.items()}
    f = dag.funcs[node]
    out = float(numpy.asarray(f(**{a: numpy.array([v]) for a, v in row.items()}))[0])
    what = f"{node} = {out} exceeds {bound} = {row[bound]} at {date} for {row}"
    if out > row[bound] + 5e-7:
        ck.violation(["cap", node], what, {"kind": "cap", "date": str(date), "node": node, "bound": bound, "row": row})
    else:
        common.spurious("C16", what)


# caps that a parameter NAMED as a maximum encodes for the rule that reads it (curated from the parameter files:
# the rule's result must not exceed the parameter; checked for every value the parameter takes over time)
NAMED_CAPS = [
    ("_arbeitsl_geld_2_alleinerz_mehrbedarf_m", "arbeitsl_geld_2_params", ("mehrbedarf_anteil", "max")),
    ("_arbeitsl_geld_2_warmmiete_pro_qm_m", "arbeitsl_geld_2_params", ("max_miete_pro_qm", "max")),
    ("eink_st_abz_betreuungskost_y", "eink_st_abzuege_params", ("kinderbetreuungskosten_abz_maximum",)),
    ("eink_st_altersfreib_y_bis_2004", "eink_st_abzuege_params", ("altersentlastungsbetrag_max",)),
    ("vorsorge_krankenv_option_a", "eink_st_abzuege_params", ("vorsorgepauschale_kv_max", "steuerklasse_3")),
    # income considered for Elterngeld is capped: base amount <= cap x replacement rate (this is what bounds the
    # sibling bonus, a share of the base amount); arguments listed last are non-negative by their own sign facts
    ("elterngeld_basisbetrag_m", "elterngeld_params", ("max_zu_berücksichtigendes_einkommen",), "elterngeld_lohnersatzanteil",
     ("elterngeld_anrechenbares_nettoeinkommen_m", "elterngeld_lohnersatzanteil")),
]


def named_caps(ck):
    allf = gt.all_internal_functions()
    for entry in NAMED_CAPS:
        fname, parg, path = entry[:3]
        times, nonneg = (entry[3] if len(entry) > 3 else None), (entry[4] if len(entry) > 4 else ())
        f = allf.get(fname)
        if f is None:
            ck.add_inconclusive(f"named cap {fname} <= {'.'.join(map(str, path))}: the rule no longer exists")
            continue
        info = getattr(f, "__info__", {}) or {}
        lo = max(info["start_date"], datetime.date(1985, 1, 1)) if info.get("start_date") else datetime.date(1985, 1, 1)
        hi = info.get("end_date") or datetime.date.max
        group = parg[: -len("_params")]
        own = [a[: -len("_params")] for a in inspect.signature(f).parameters if a.endswith("_params")]
        # one run per distinct value of the cap over time (whether or not the rule still reads the parameter: a rule
        # that stopped reading its cap is exactly what must be caught)
        dates = sorted({lo, *[d for g_ in {group, *own} for d in gt._group_dates(g_) if lo <= d <= hi]})
        seen_caps = set()
        for d in dates:
            try:
                cap = gt._group_at(group, d)
                for k in path:
                    cap = cap[k]
                cap = float(cap)
            except Exception:   # noqa: BLE001 -- the cap parameter is not in force at that date
                continue
            try:
                P = {g_: gt._group_at(g_, d) for g_ in own}
            except Exception:   # noqa: BLE001
                continue
            sig_ = (cap, repr([P[g_] for g_ in own]) if own else "")
            if sig_ in seen_caps:
                continue
            seen_caps.add(sig_)
            lab = str(d)
            kw = {g_ + "_params": P[g_] for g_ in own}
            try:
                kws, syms = gt.rule_args(f, P)
                v, ctx = R.run(f, kwargs=kws)
                if v is None:
                    continue
                t = R.term_of(v, float)
            except (R.Unsupported, KeyError, TypeError, ValueError) as e:
                ck.add_inconclusive(f"named cap {fname}@{lab}: {type(e).__name__}: {e}"[:160])
                continue
            ck.functions |= ctx.funcs
            errs = [g for g, k_, w in ctx.errors]
            pre = validity.inputs(syms) + list(ctx.assumptions) + ([z3.Not(z3.Or(errs))] if errs else [])
            pre += [R.term_of(syms[a], float) >= 0 for a in nonneg if a in syms]
            bound = R.const_real(cap)
            if times:
                if times not in syms:
                    ck.add_inconclusive(f"named cap {fname}@{lab}: argument {times} no longer exists")
                    continue
                bound = bound * R.term_of(syms[times], float)
            r, m = ck.oblige(f"named cap {fname} <= {'.'.join(map(str, path))}{' x ' + times if times else ''} @{lab}", pre + [t > bound + EPS], 60,
                             sample={"rule": fname, "cap_parameter": ".".join(map(str, path)), "value": cap, "parameters_in_force_at": lab})
            ck.nontrivial.add(("named-cap", fname, cap))
            if r == "sat":
                row = {a: R.model_value(m, s_) for a, s_ in syms.items()}
                try:
                    out = float(f(**row, **kw))
                except Exception as e:   # noqa: BLE001
                    out = None
                capv = cap * (float(row[times]) if times else 1.0)
                what = f"{fname} = {out} exceeds the cap {'.'.join(map(str, path))}{' x ' + times if times else ''} = {capv} (parameters of {lab}) for {row}"
                if out is not None and out > capv + 5e-7:
                    ck.violation(["named-cap", fname], what, {"kind": "named-cap", "fname": fname, "variant": lab, "row": row, "cap": capv})
                else:
                    common.spurious("C16", what)


def _one_date(ck, date):
    check_date(ck, date, {}, set())


def run(tier):
    ck = common.Check("C16", tier)
    dates, st = date_classes(tier)
    common.run_parallel(ck, _one_date, dates)
    named_caps(ck)
    memo = {}
    ck.bounds = {"date_classes": len(dates), "sign_queries": "memoised per date (dates run in parallel worker processes)", "persons": "rule-local facts: any population; cone fallback: single-person household",
                 "eps": "1e-6", "window": "quick: 4 dates >= 2015; thorough: one representative per distinct environment >= 2015"}
    if st:
        ck.extra["date_exploration"] = {k: v for k, v in st.items() if k != "leaks"}
    ck.assumptions = validity.DESCRIPTION + ["whole-column rules (skip_vectorization) carry no sign fact; aggregations / time conversions keep the sign of their source",
                                             "finiteness = absence of reachable error guards (decided in C08) and of non-finite constants in result terms"]
    ck.rule = "one obligation per (default target, date class) and per cap; sign queries memoised by (function, term, parent facts)"
    ck.explanation = ("Houdini-style inductive sign invariants over the real DAG: each rule's real source is executed symbolically and z3 proves >= 0 from the parents' facts; "
                      "targets that are not inductive are proved on the cone from root inputs (single person) or refuted with a replayed model; caps as local obligations.")
    return ck.finish()


def replay(path):
    d = json.load(open(path))["replay"]
    from gsv.checks import c08
    if d["kind"] == "named-cap":
        f = gt.all_internal_functions()[d["fname"]]
        dt = datetime.date.fromisoformat(d["variant"])
        kw = {a: gt._group_at(a[: -len("_params")], dt) for a in inspect.signature(f).parameters if a.endswith("_params")}
        out = float(f(**d["row"], **kw))
        print(out, "cap", d["cap"])
        return 1 if out > d["cap"] + 5e-7 else 0
    if d["kind"] == "household":
        import pandas as pd
        import warnings
        from gettsim import compute_taxes_and_transfers
        P, F = gt.env(datetime.date.fromisoformat(d["date"]))
        with warnings.catch_warnings():
            warnings.simplefilter("ignore")
            out = compute_taxes_and_transfers(pd.DataFrame(d["data"]), P, F, targets=[d["node"]])
        vals = [float(x) for x in out[d["node"]].tolist()]
        print(vals)
        return 1 if min(vals) < -5e-7 else 0
    if d["kind"] == "slice":
        dag = symdag.Dag(datetime.date.fromisoformat(d["date"]))
        out = concrete_slice(dag, d["node"], d["row"])
        print(out, "cap", d["cap"])
        return 1 if out > d["cap"] + 5e-7 else 0
    if d["kind"] == "row":
        rep = c08.replay_row(datetime.date.fromisoformat(d["date"]), d["node"], d["row"])
        print(rep)
        return 1 if (rep.get("value") is not None and float(rep["value"]) < -5e-7) else 0
    print("re-run the check")
    return 0
