"""C02 -- unrelated households do not influence each other (separability); relabelling changes labels only.

Harness "A alone vs A ++ B" (ids of A and B disjoint, no pointer across, households disjoint):
 * groupings (CrossHair, real groupings.py): the partition on A is the same, no derived id is shared
   between an A-row and a B-row; relabelling with sparse unsorted labels gives the same partition;
 * aggregations / pointer sums / joins (colsym + z3): results on A's rows are equal; relabelling group
   ids by any injective map leaves results equal;
 * dataset-wide dtype inference: the typed-path obligation of C03 posed with the first row in B.
"""
from __future__ import annotations

import json
import random

import time
import z3

from gsv import colsym, common, gt, grouping_checks as GC, xh
from gsv import rulesym as R
from gsv.checks import c03, c11, c12
from gsv.colsym import SymArray

SEP_TEMPLATE = r'''
# ------------------------------------------------------------------ separability (A = first NA rows)
NA = __NA__


def _split_ok(ptrs, hh):
    """no pointer between A and B; households of A and B disjoint"""
    for ptr in ptrs:
        for i in range(N):
            if ptr[i] >= 0 and ((i < NA) != (ptr[i] < NA)):
                return False
    if hh is not None:
        for i in range(NA):
            for j in range(NA, N):
                if hh[i] == hh[j]:
                    return False
    return True


def _restrict(ptr):
    return [ptr[i] for i in range(NA)]


def _sep(full, alone):
    for a in range(NA):
        for b in range(a + 1, NA):
            if (full[a] == full[b]) != (alone[a] == alone[b]):
                return False
        for b in range(NA, N):
            if full[a] == full[b]:
                return False
    return True


def check_sep_eg(ep: List[int]) -> bool:
    """
    pre: _valid_ptr(ep) and _split_ok([ep], None)
    post: _
    """
    return _sep(G.eg_id_numpy(P, ep), G.eg_id_numpy(P[:NA], _restrict(ep)))


def check_sep_sn(sp: List[int], gv: List[bool]) -> bool:
    """
    pre: _valid_ptr(sp) and len(gv) == N and _split_ok([sp], None)
    pre: all(sp[i] < 0 or gv[i] == gv[sp[i]] for i in range(N))
    post: _
    """
    return _sep(G.sn_id_numpy(P, sp, gv), G.sn_id_numpy(P[:NA], _restrict(sp), gv[:NA]))


def check_sep_bg(fg: List[int], alt: List[int], eb: List[bool]) -> bool:
    """
    pre: len(fg) == N and len(alt) == N and len(eb) == N
    pre: all(0 <= f <= N for f in fg) and all(0 <= a <= 100 for a in alt)
    pre: all(fg[i] != fg[j] for i in range(NA) for j in range(NA, N))
    post: _
    """
    return _sep(G.bg_id_numpy(fg, alt, eb), G.bg_id_numpy(fg[:NA], alt[:NA], eb[:NA]))


def check_sep_wthh(hh: List[int], v1: List[bool], v2: List[bool]) -> bool:
    """
    pre: len(hh) == N and len(v1) == N and len(v2) == N and all(0 <= h <= 50 for h in hh)
    pre: all(hh[i] != hh[j] for i in range(NA) for j in range(NA, N))
    post: _
    """
    return _sep(G.wthh_id_numpy(hh, v1, v2), G.wthh_id_numpy(hh[:NA], v1[:NA], v2[:NA]))


def check_sep_fg(hh: List[int], alt: List[int], ep: List[int], e1: List[int], e2: List[int]) -> bool:
    """
    pre: _valid_fam(hh, alt, ep, e1, e2) and _not_excluded(hh, alt, ep, e1, e2) and _split_ok([ep, e1, e2], hh)
    post: _
    """
    full = G.fg_id_numpy(P, hh, alt, ep, e1, e2)
    alone = G.fg_id_numpy(P[:NA], hh[:NA], alt[:NA], _restrict(ep), _restrict(e1), _restrict(e2))
    return _sep(full, alone)
'''

SEP_CONDS = ["check_sep_eg", "check_sep_sn", "check_sep_bg", "check_sep_wthh"]
RELABEL_CONDS = ["check_relabel_eg", "check_relabel_sn"]


def groupings(ck, tier):
    from gsv import harness_groupings as H
    n, na = (3, 2) if tier == "quick" else (4, 2)
    timeout = 150 if tier == "quick" else 1500
    excl = GC.known_fg_classes(ck, "C02")
    text = H.render(n, excl) + SEP_TEMPLATE.replace("__NA__", str(na))
    path = xh.write_harness("C02", f"sep_n{n}", text)
    conds = SEP_CONDS + RELABEL_CONDS
    from gsv import fgsym
    fgsym.run_obligations(ck, "C02", n, excl, with_orders=False, with_relabel=True, sep_na=na, timeout=300)
    # z3 on the real whole-column wthh code (CrossHair sees lists where the real code sees arrays)
    from gsv import groupsym
    groupsym.run_all(ck, n, which=("wthh_sep",))
    res = xh.run_all(path, conds + ["check_eg_twin"], timeout, common.JOBS)
    for t in ("check_eg_twin",):
        if res[t][0] != "counterexample":
            raise common.HarnessError(f"C02 reachability twin {t}: {res[t][0]}")
    for cond in conds:
        verdict, cex, secs, tail = res[cond]
        ck.obligations += 1
        ck.queries += 1
        ck.solver_time += secs
        ck.nontrivial.add(cond)
        ck.samples.append({"condition": cond, "persons": n, "A_rows": na, "verdict": verdict, "seconds": secs})
        if verdict == "confirmed":
            ck.discharged += 1
        elif verdict == "counterexample":
            rep = replay_sep(text, cond, cex)
            if rep is True:
                ck.violation([cond], f"{cond}: households influence each other / labels matter: {cex}", {"cond": cond, "cex": {str(k): v for k, v in cex.items()}, "n": n, "na": na})
            else:
                common.spurious("C02", f"{cond}: {cex} does not reproduce ({rep})")
        else:
            ck.inconclusive.append(f"{cond} (N={n}): {verdict}")
    xh.cleanup("C02")
    return n, na


def replay_sep(text, cond, cex):
    import importlib
    import _gettsim.groupings as G
    importlib.reload(G)
    src = text.replace("G.numpy = _NP", "pass")
    ns = {}
    exec(compile(src, "<harness>", "exec"), ns)   # noqa: S102
    args = [cex[i] for i in sorted(k for k in cex if isinstance(k, int))]
    try:
        return bool(ns[cond](*args)) is False
    except Exception as e:   # noqa: BLE001
        return f"raises {type(e).__name__}: {e}"


def _conc(v, m):
    import numpy
    if isinstance(v, SymArray):
        return numpy.array([R.model_value(m, x) for x in v.e], dtype=v.dtype)
    return v


def confirmed(f, kw_full, kw_other, m, rows, what):
    """replay a model on the real function: results on the first `rows` rows of the two calls must differ"""
    import numpy
    try:
        a = numpy.asarray(f(**{k: _conc(v, m) for k, v in kw_full.items()}), dtype=float)
        b = numpy.asarray(f(**{k: _conc(v, m) for k, v in kw_other.items()}), dtype=float)
    except Exception as e:   # noqa: BLE001
        return f"raises {type(e).__name__}: {e}"[:120]
    if not numpy.allclose(a[:rows], b[:rows], rtol=1e-9, atol=1e-12, equal_nan=True):
        return True
    common.spurious("C02", f"{what}: model does not reproduce on the real function ({a.tolist()} vs {b.tolist()})")
    return False


def _real_term(v):
    t, ty = R.lift(v)
    return z3.ToReal(t) if t.sort().kind() == z3.Z3_INT_SORT else t


def fp_separable(ck, f, label, pre, full, alone, kw_full, kw_alone, na, foreign, key, int_syms=(), domain=()):
    """The same claim bit for bit (gsv.fpcheck): only asked where the term of a row of A mentions a value of B at all."""
    from .. import fpcheck
    import numpy
    pairs = []
    for i in range(na):
        try:
            a, b = _real_term(full.e[i]), _real_term(alone.e[i])
        except R.Unsupported:
            continue
        if a.sort().kind() != z3.Z3_REAL_SORT or b.sort().kind() != z3.Z3_REAL_SORT:
            continue
        if fpcheck.real_consts(a) & foreign:
            pairs.append((a, b))
    name = f"separable bit for bit (Float64 RNE) {label} A={na}"
    if not pairs:
        ck.add_discharged(name)   # no value of B occurs in the terms of A's rows: nothing to round
        return
    # identifiers / pointers are enumerated (every assignment over `domain` that satisfies the precondition); the
    # values stay symbolic Float64: with concrete ids the selection structure folds away and the query is pure FP
    import itertools
    ivars = list(int_syms)
    tr = fpcheck.Translator()
    try:
        fpairs = [(tr.tr(a), tr.tr(b)) for a, b in pairs]
    except fpcheck.NoFP as e:
        ck.add_inconclusive(f"{name}: {e}")
        return
    seen, value = set(), None
    t0 = time.time()
    for combo in itertools.product(domain, repeat=len(ivars)):
        sub = [(v, z3.IntVal(c)) for v, c in zip(ivars, combo)]
        if not all(z3.is_true(z3.simplify(z3.substitute(p, *sub))) for p in pre):
            continue
        ps = []
        for a, b in fpairs:
            # Float64 terms: z3's simplifier folds the selection structure but keeps every rounding operation
            a2, b2 = z3.simplify(z3.substitute(a, *sub)), z3.simplify(z3.substitute(b, *sub))
            if fpcheck.fp_consts(a2) & foreign:
                ps.append((a2, b2))
        sig = str(ps)
        if not ps or sig in seen:
            continue
        seen.add(sig)
        ck.obligations += 1
        r, fval, secs = fpcheck.differs_fp(tr, ps, 30)
        ck.queries += 1
        ck.solver_time += secs
        if r == "unsat":
            ck.discharged += 1
            continue
        if r != "sat":
            ck.inconclusive.append(f"{name} ids={combo}: {r}")
            continue
        ids = {v.decl().name(): c for v, c in zip(ivars, combo)}

        def value(t, fval=fval, ids=ids):
            if z3.is_const(t) and t.decl().kind() == z3.Z3_OP_UNINTERPRETED:
                return fval(t.decl().name()) if t.sort().kind() == z3.Z3_REAL_SORT else ids.get(t.decl().name(), 0)
            return R.z3_to_py(z3.simplify(t))
        break
    if not seen:
        ck.add_discharged(name)
    ck.bounds["fp_separability"] = "Float64 round-to-nearest re-check of A's rows where their term mentions a value of B: ids/pointers enumerated over a small domain, values symbolic Float64, finite, zero or 0.01 <= |v| <= 1e9"
    if value is None:
        return

    def conc(v):
        if isinstance(v, SymArray):
            return numpy.array([value(R.lift(x)[0]) for x in v.e], dtype=v.dtype)
        return v
    cf = {k: conc(v) for k, v in kw_full.items()}
    ca = {k: conc(v) for k, v in kw_alone.items()}
    try:
        x = numpy.asarray(f(**cf), dtype=float)[:na]
        y = numpy.asarray(f(**ca), dtype=float)[:na]
    except Exception as e:   # noqa: BLE001
        common.spurious("C02", f"{name}: replay raises {type(e).__name__}: {e}"[:160])
        ck.inconclusive.append(f"{name}: Float64 model does not replay")
        return
    if all((p == q) or (p != p and q != q) for p, q in zip(x.tolist(), y.tolist())):
        # the model's summation order is not the library's: a Float64 model that does not reproduce decides nothing
        common.spurious("C02", f"{name}: Float64 model does not reproduce on the real function")
        ck.inconclusive.append(f"{name}: Float64 model does not reproduce (summation order of the model)")
        return
    ck.violation(key, f"{label}: rows of A change bit for bit when unrelated rows B are appended (a value of B takes part in the floating-point "
                      f"arithmetic of A's result): {({k: (v.tolist() if hasattr(v, 'tolist') else v) for k, v in cf.items()})} gives {x.tolist()} for A, A alone gives {y.tolist()}",
                 {"kind": "col", "label": label})


def column_code(ck, na, nb):
    import numpy
    import _gettsim.aggregation_numpy as A
    from _gettsim.shared import join_numpy
    n = na + nb
    gid = c11.ints("g", n)
    gid2 = c11.ints("h", n)
    pre = [g.t >= 0 for g in gid.e] + [z3.And(gid.e[i].t != gid.e[j].t) for i in range(na) for j in range(na, n)]
    iso = [g.t >= 0 for g in gid2.e] + [(gid.e[i].t == gid.e[j].t) == (gid2.e[i].t == gid2.e[j].t) for i in range(n) for j in range(i + 1, n)]
    for kind, col in (("sum", c11.reals("v", n)), ("sum", c11.bools("v", n)), ("mean", c11.reals("v", n)), ("max", c11.reals("v", n)), ("min", c11.ints("v", n)),
                      ("any", c11.bools("v", n)), ("all", c11.bools("v", n)), ("count", None)):
        f = getattr(A, f"grouped_{kind}")
        label = f"grouped_{kind}[{col.dtype if col is not None else '-'}]"
        try:
            mk = lambda g, k: ({"group_id": g} if col is None else {"column": SymArray(col.e[:k], col.dtype), "group_id": g})   # noqa: E731
            kw_full, kw_alone, kw_rel = mk(gid, n), mk(SymArray(gid.e[:na], int), na), mk(gid2, n)
            full, c1 = c11.run_real(f, **kw_full)
            alone, c2 = c11.run_real(f, **kw_alone)
            rel, c3 = c11.run_real(f, **kw_rel)
        except R.Unsupported as e:
            ck.add_inconclusive(f"{label}: {e}")
            continue
        ck.functions |= c1.funcs
        bad = z3.Or([z3.Not(R.values_equal(full.e[i], alone.e[i])) for i in range(na)])
        r, m = ck.oblige(f"separable {label} A={na} B={nb}", pre + [bad], 60,
                         sample={"function": label, "claim": "F(A++B)|A == F(A) for disjoint group ids", "A_rows": na, "B_rows": nb})
        ck.nontrivial.add(("sep", label, na, nb))
        if r == "sat" and confirmed(f, kw_full, kw_alone, m, na, f"separable {label}") is not False:
            ck.violation(["separable", label], f"{label}: rows of A change when unrelated rows B are appended: {({k: _conc(v, m).tolist() for k, v in kw_full.items()})}", {"kind": "col", "label": label})
        if r == "unsat" and col is not None and numpy.dtype(col.dtype).kind == "f":
            fp_separable(ck, f, label, pre, full, alone, kw_full, kw_alone, na, {f"v{j}" for j in range(na, n)}, ["separable-fp", label],
                         int_syms=[g.t for g in gid.e], domain=range(n + 1))
        bad2 = z3.Or([z3.Not(R.values_equal(full.e[i], rel.e[i])) for i in range(n)])
        r, m = ck.oblige(f"relabel {label} N={n}", [g.t >= 0 for g in gid.e] + iso + [bad2], 60,
                         sample={"function": label, "claim": "F(sigma.ids) == F(ids) for every injective relabelling sigma", "rows": n})
        ck.nontrivial.add(("relabel", label, n))
        if r == "sat" and confirmed(f, kw_full, kw_rel, m, n, f"relabel {label}") is not False:
            ck.violation(["relabel", label], f"{label}: result depends on the group labels, not only on the partition: {({k: _conc(v, m).tolist() for k, v in kw_full.items()})} vs {({k: _conc(v, m).tolist() for k, v in kw_rel.items()})}", {"kind": "col", "label": label})
    # pointer sums and joins: B's pointers stay in B, A's in A
    labs = c11.LABELS[n][1] if n in c11.LABELS else list(range(n))
    ptr = c11.ints("ptr", n)
    col = c11.reals("v", n)
    valid = [z3.Or([ptr.e[i].t < 0] + [ptr.e[i].t == labs[j] for j in (range(na) if i < na else range(na, n))]) for i in range(n)]
    try:
        kf = dict(column=col, p_id_to_aggregate_by=ptr, p_id_to_store_by=SymArray(list(labs), int))
        ka = dict(column=SymArray(col.e[:na], float), p_id_to_aggregate_by=SymArray(ptr.e[:na], int), p_id_to_store_by=SymArray(list(labs[:na]), int))
        full, c1 = c11.run_real(A.sum_by_p_id, **kf)
        alone, c2 = c11.run_real(A.sum_by_p_id, **ka)
        bad = z3.Or([z3.Not(R.values_equal(full.e[i], alone.e[i])) for i in range(na)])
        r, m = ck.oblige(f"separable sum_by_p_id A={na} B={nb}", valid + [bad], 60, sample={"function": "sum_by_p_id", "claim": "F(A++B)|A == F(A)"})
        ck.nontrivial.add(("sep", "sum_by_p_id", na, nb))
        if r == "unsat":
            fp_separable(ck, A.sum_by_p_id, "sum_by_p_id", valid, full, alone, kf, ka, na, {f"v{j}" for j in range(na, n)}, ["separable-fp", "sum_by_p_id"],
                         int_syms=[q.t for q in ptr.e], domain=sorted({-1, *[int(x) for x in labs]}))
        if r == "sat" and confirmed(A.sum_by_p_id, kf, ka, m, na, "separable sum_by_p_id") is not False:
            ck.violation(["separable", "sum_by_p_id"], f"sum_by_p_id: rows of A change when unrelated rows B are appended: {({k: _conc(v, m).tolist() for k, v in kf.items()})}", {"kind": "col", "label": "sum_by_p_id"})
        fk, pk, tg = c11.ints("fk", n), c11.ints("pk", n), c11.reals("t", n)
        ok = [z3.Distinct([p.t for p in pk.e])] + [p.t >= 0 for p in pk.e]
        ok += [z3.Or([fk.e[i].t < 0] + [fk.e[i].t == pk.e[j].t for j in (range(na) if i < na else range(na, n))]) for i in range(n)]
        jf = dict(foreign_key=fk, primary_key=pk, target=tg, value_if_foreign_key_is_missing=0.0)
        ja = dict(foreign_key=SymArray(fk.e[:na], int), primary_key=SymArray(pk.e[:na], int), target=SymArray(tg.e[:na], float), value_if_foreign_key_is_missing=0.0)
        full, c1 = c11.run_real(join_numpy, **jf)
        alone, c2 = c11.run_real(join_numpy, **ja)
        bad = z3.Or([z3.Not(R.values_equal(full.e[i], alone.e[i])) for i in range(na)])
        errs = [g for g, k, w in c1.errors + c2.errors]
        r, m = ck.oblige(f"separable join_numpy A={na} B={nb}", ok + ([z3.Not(z3.Or(errs))] if errs else []) + [bad], 60, sample={"function": "join_numpy", "claim": "F(A++B)|A == F(A)"})
        ck.nontrivial.add(("sep", "join_numpy", na, nb))
        if r == "sat" and confirmed(join_numpy, jf, ja, m, na, "separable join_numpy") is not False:
            ck.violation(["separable", "join_numpy"], f"join_numpy: rows of A change when unrelated rows B are appended: {({k: (_conc(v, m).tolist() if isinstance(v, SymArray) else v) for k, v in jf.items()})}", {"kind": "col", "label": "join_numpy"})
    except R.Unsupported as e:
        ck.add_inconclusive(f"pointer code: {e}")


def skipvec_code(ck, na, nb):
    """whole-column policy rules (skip_vectorization): rows of A unchanged when B is appended (pointers of A stay in
    A, group ids of A and B disjoint), and the result depends on group ids only through the partition they induce
    (every injective relabelling, 0 included)"""
    from gsv.checks import c01
    n = na + nb
    labs = c11.LABELS[n][1] if n in c11.LABELS else list(range(n))
    for name, f in sorted(gt.all_internal_functions().items()):
        if not gt.is_skipvec(f):
            continue
        label = f"skipvec {name}"
        try:
            kw, pre = c01.skipvec_args(f, n)
            ids = [a for a, v in kw.items() if a.endswith("_id") and a != "p_id" and isinstance(v, SymArray)]
            ptrs = [a for a in kw if a.startswith("p_id_")]
            cut = lambda v: SymArray(v.e[:na], v.dtype) if isinstance(v, SymArray) else v   # noqa: E731
            kw_alone = {a: cut(v) for a, v in kw.items()}
            split = []
            for a in ptrs:     # a pointer of A refers to A, a pointer of B to B
                split += [z3.Or([kw[a].e[i].t < 0] + [kw[a].e[i].t == labs[j] for j in (range(na) if i < na else range(na, n))]) for i in range(n)]
            for a in ids:
                split += [x.t >= 0 for x in kw[a].e] + [kw[a].e[i].t != kw[a].e[j].t for i in range(na) for j in range(na, n)]
            full, c1 = c11.run_real(f, **kw)
            alone, c2 = c11.run_real(f, **kw_alone)
            if full is None or alone is None:
                ck.add_inconclusive(f"{label}: raises on every path")
                continue
            errs = [g for g, k, w in list(c1.errors) + list(c2.errors)]
            noerr = [z3.Not(z3.Or(errs))] if errs else []
            ck.functions |= c1.funcs
            bad = z3.Or([z3.Not(R.values_equal(full.e[i], alone.e[i])) for i in range(na)])
            r, m = ck.oblige(f"separable {label} A={na} B={nb}", split + noerr + [bad], 60,
                             sample={"function": label, "claim": "F(A++B)|A == F(A)", "A_rows": na, "B_rows": nb})
            ck.nontrivial.add(("sep", label, na, nb))
            if r == "sat" and confirmed(f, kw, kw_alone, m, na, f"separable {label}") is not False:
                ck.violation(["separable", label], f"{label}: rows of A change when unrelated rows B are appended: {({k: _conc(v, m).tolist() for k, v in kw.items() if isinstance(v, SymArray)})}",
                             {"kind": "col", "label": label})
            e_full, e_alone = [g for g, k, w in c1.errors], [g for g, k, w in c2.errors]
            if e_full or e_alone:
                # raising for A together with B but not for A alone (or the reverse) is a difference as well
                r, m = ck.oblige(f"separable (raising) {label} A={na} B={nb}", split + [z3.Or(e_full or [z3.BoolVal(False)]) != z3.Or(e_alone or [z3.BoolVal(False)])], 60)
                if r == "sat":
                    outs = []
                    for k2 in (kw, kw_alone):
                        try:
                            f(**{k: _conc(v, m) for k, v in k2.items()})
                            outs.append(None)
                        except Exception as e:   # noqa: BLE001
                            outs.append(f"{type(e).__name__}: {e}"[:100])
                    if (outs[0] is None) != (outs[1] is None):
                        ck.violation(["separable", label], f"{label}: raises for A together with unrelated rows B but not for A alone (or the reverse): together={outs[0]} alone={outs[1]} "
                                     f"{({k: _conc(v, m).tolist() for k, v in kw.items() if isinstance(v, SymArray)})}", {"kind": "col", "label": label})
                    else:
                        common.spurious("C02", f"separable (raising) {label}: model does not reproduce ({outs})")
            for a in ids:
                new = c11.ints(a + "_relabelled", n)
                iso = [x.t >= 0 for x in kw[a].e] + [x.t >= 0 for x in new.e] + \
                      [(kw[a].e[i].t == kw[a].e[j].t) == (new.e[i].t == new.e[j].t) for i in range(n) for j in range(i + 1, n)]
                kw_rel = {**kw, a: new}
                rel, c3 = c11.run_real(f, **kw_rel)
                if rel is None:
                    continue
                e3 = [g for g, k, w in c3.errors]
                bad2 = z3.Or([z3.Not(R.values_equal(full.e[i], rel.e[i])) for i in range(n)])
                r, m = ck.oblige(f"relabel {a} in {label} N={n}", list(pre) + iso + noerr + ([z3.Not(z3.Or(e3))] if e3 else []) + [bad2], 60,
                                 sample={"function": label, "claim": f"F depends on {a} only through the partition (every injective relabelling)", "rows": n})
                ck.nontrivial.add(("relabel", label, a, n))
                if r == "sat" and confirmed(f, kw, kw_rel, m, n, f"relabel {label}") is not False:
                    ck.violation(["relabel", label], f"{label}: result depends on the labels of {a}, not only on the partition: "
                                 f"{({k: _conc(v, m).tolist() for k, v in kw.items() if isinstance(v, SymArray)})} vs {a}={_conc(new, m).tolist()}",
                                 {"kind": "col", "label": label})
        except R.Unsupported as e:
            ck.add_inconclusive(f"{label}: {e}")


def run(tier):
    ck = common.Check("C02", tier)
    n, na = groupings(ck, tier)
    for a, b in ([(2, 1)] if tier == "quick" else [(2, 1), (2, 2)]):
        skipvec_code(ck, a, b)
    for a, b in ([(1, 1), (2, 1)] if tier == "quick" else [(1, 1), (2, 1), (2, 2), (3, 1)]):
        column_code(ck, a, b)
    rnd = random.Random(common.SEED)
    done = set()
    dates = gt.QUICK_DATES[2:3] if tier == "quick" else gt.QUICK_DATES
    for date in dates:
        P, F = gt.env(date)
        for name, f in F.items():
            if gt.is_rule(f):
                c03.analyse_rule(ck, name, f, P, date, done, rnd)
    ck.bounds = {"groupings": f"A={na} rows, B={n - na} rows (CrossHair)", "column_code": "A<=2 rows, B<=1 row (quick) / A+B<=4 rows (thorough)",
                 "relabelling": "groupings: 3 concrete sparse unsorted labelings; aggregations: every injective relabelling (symbolic)",
                 "outside": "pandas-level type conversion of whole columns (C20)"}
    ck.stubs = ["numpy.asarray -> list inside groupings (CrossHair)", "numpy / numpy_groupies models (colsym)"]
    ck.rule = "one obligation per grouping condition and per (column function, population split / relabelling)"
    ck.explanation = ("Two-population harness on the real grouping and whole-column code: results restricted to A equal those of A alone and no derived id is shared across populations; "
                      "relabelling leaves partitions / values unchanged; the dataset-wide dtype effect is decided per rule (as C03).")
    return ck.finish()


def replay(path):
    d = json.load(open(path))["replay"]
    if "cond" in d:
        from gsv import harness_groupings as H
        text = H.render(d["n"], ()) + SEP_TEMPLATE.replace("__NA__", str(d["na"]))
        cex = {(int(k) if k.isdigit() else k): v for k, v in d["cex"].items()}
        rep = replay_sep(text, d["cond"], cex)
        print(rep)
        return 1 if rep is True else 0
    if d.get("kind") == "groupsym":
        from gsv import groupsym
        bad = groupsym.replay(d)
        print("reproduces:", bad)
        return 1 if bad else 0
    if d.get("kind") == "fgsym":
        from gsv import fgsym
        if d.get("variant"):
            fgsym.set_variant(d["variant"])
        return 1 if fgsym.reproduces(d["name"], d["vals"], d["n"], d.get("sep_na")) else 0
    if d.get("kind") == "fg":
        bad, pi = GC.fg_order_dependent(d["w"])
        return 1 if bad else 0
    if "rows" in d:
        return c03.replay(path)
    print("re-run the check")
    return 0
