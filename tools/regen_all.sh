#!/bin/sh
# Regenerate every evidence file from the CLEAN /repo tree (never while a patch is applied), refresh the
# coverage baseline, MANIFEST.json and DESIGN.md section 9.   usage: tools/regen_all.sh quick|thorough|both
cd /verif || exit 9
if [ -n "$(git -C /repo status --porcelain)" ]; then echo "/repo working tree is not clean"; exit 9; fi
MODE="${1:-quick}"
IDS="C01 C02 C03 C04 C05 C07 C08 C09 C10 C11 C12 C13 C15 C16 C17 C18 C19 C20"
rc=0
run_tier() {
  for id in $IDS; do
    start=$(date +%s)
    GSV_WRITE_BASELINE=1 ./check "$id" --tier "$1" > "/verif/scratch/regen_${id}_$1.log" 2>&1
    code=$?
    echo "$id $1 exit=$code $(( $(date +%s) - start ))s $(grep -c '^KNOWN-FINDING' /verif/scratch/regen_${id}_$1.log) known $(tail -n 3 /verif/scratch/regen_${id}_$1.log | grep '^\[' | cut -c1-160)"
    [ "$code" -ne 0 ] && rc=1
  done
}
mkdir -p /verif/scratch
case "$MODE" in
  thorough) run_tier thorough ;;
  both) run_tier thorough; run_tier quick ;;
  *) run_tier quick ;;
esac
case "$MODE" in thorough|both) python3 tools/thorough_summary.py > /dev/null ;; esac
python3 tools/mkmanifest.py > /dev/null && python3 tools/seed_table.py > /dev/null
echo "regen done rc=$rc"
exit $rc
