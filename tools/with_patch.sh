#!/bin/sh
# usage: tools/with_patch.sh <patch-file> <timeout-seconds> <command...>
# applies a patch to /repo, runs the command under timeout, always restores /repo.
P="$1"; T="$2"; shift 2
cd /repo || exit 9
git apply "$P" || { echo "patch does not apply"; exit 9; }
trap 'cd /repo && git checkout -- . ' EXIT INT TERM
cd /verif
timeout "$T" "$@"
echo "exit=$?"
