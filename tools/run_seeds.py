#!/usr/bin/env python3
"""Re-run the detecting checks (quick tier) against every confirmed seeded change (scratch trees; /repo untouched)
and update seeded/<name>/meta.json["detected_by_current"]."""
import json, glob, os, subprocess, sys, time
only = set(sys.argv[1:])
for f in sorted(glob.glob("/verif/seeded/*/meta.json")):
    m = json.load(open(f)); name = m["name"]
    if only and name not in only: continue
    checks = sorted({r["check"] for r in m.get("ran", []) + m.get("first_ran", [])} | {m["property"]})
    wt = f"/tmp/seedwt_{name}"
    subprocess.run(f"git -C /repo worktree remove --force {wt} 2>/dev/null; git -C /repo worktree add -q {wt} HEAD && git -C {wt} apply /verif/seeded/{name}/patch.diff", shell=True, check=True)
    res = {}
    try:
        for c in checks:
            t0 = time.time()
            p = subprocess.run(["timeout", "1800", "./check", c, "--tier", "quick"], cwd="/verif", capture_output=True, text=True, env=dict(os.environ, PYTHONPATH=f"{wt}/src"))
            res[c] = {"exit": p.returncode, "seconds": round(time.time() - t0)}
    finally:
        subprocess.run(f"git -C /repo worktree remove --force {wt}", shell=True)
    m["detected_by_current"] = sorted(c for c, r in res.items() if r["exit"] == 1)
    m["current_results"] = res
    json.dump(m, open(f, "w"), indent=1, ensure_ascii=False)
    print(name, res, flush=True)
