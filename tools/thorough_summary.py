#!/usr/bin/env python3
"""Summarise the last thorough-tier regeneration from its logs (scratch/regen_<id>_thorough.log) into
thorough_last_run.json -- evidence/<id>.json is rewritten by every run and ends up holding the quick tier."""
import glob, json, os, re, time
out = {"generated": time.strftime("%Y-%m-%dT%H:%M:%SZ", time.gmtime()), "source": "scratch/regen_<id>_thorough.log (tools/regen_all.sh thorough)", "runs": {}}
for f in sorted(glob.glob("/verif/scratch/regen_*_thorough.log")):
    pid = os.path.basename(f).split("_")[1]
    lines = open(f, errors="replace").read().splitlines()
    summ = [l for l in lines if l.startswith(f"[{pid}/thorough]")]
    m = re.search(r"obligations=(\d+) discharged=(\d+) inconclusive=(\d+) queries=(\d+) solver=([\d.]+)s wall=([\d.]+)s violations=(\d+) known=(\d+)", summ[-1]) if summ else None
    out["runs"][pid] = {
        "finished": time.strftime("%Y-%m-%dT%H:%M:%SZ", time.gmtime(os.path.getmtime(f))),
        **({k: (float(v) if "." in v else int(v)) for k, v in zip(("obligations", "discharged", "inconclusive", "queries", "solver_s", "wall_s", "violations", "known_findings_hit"), m.groups())} if m else {"error": "no summary line"}),
        "known_finding_lines": sum(1 for l in lines if l.startswith("KNOWN-FINDING")),
        "inconclusive_names": [l.strip()[len("inconclusive:"):].strip()[:600] for l in lines if l.strip().startswith("inconclusive:")],
        "coverage_loss": [l[:300] for l in lines if l.startswith("COVERAGE-LOSS")],
        "violation_lines": [l for l in lines if l.startswith("VIOLATION")],
    }
json.dump(out, open("/verif/thorough_last_run.json", "w"), indent=1, ensure_ascii=False)
print(len(out["runs"]), "thorough runs summarised")
