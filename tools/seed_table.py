#!/usr/bin/env python3
"""Regenerate DESIGN.md §9 (seeded changes x detecting checks) from seeded/*/meta.json."""
import glob
import json
import os
import re

rows = []
for mf in sorted(glob.glob("/verif/seeded/*/meta.json")):
    d = os.path.dirname(mf)
    m = json.load(open(mf))
    files = sorted({l[6:].strip().replace("src/_gettsim/", "") for l in open(os.path.join(d, "patch.diff")) if l.startswith("+++ b/")})
    det = m.get("detected_by_current") or sorted({x.split(":")[0] for x in m.get("detected_by", [])})
    first = m.get("first_evaluation") or ("detected" if (m.get("history") or "").lower().startswith(("detected", "the single", "the solver part")) else "missed → strengthened")
    rows.append((m["name"], m["property"], ", ".join(files), (m.get("needs") or "").replace("|", "/"), ", ".join(det) or "—", first,
                 (m.get("history") or "").replace("|", "/")))
out = ["## 9. Seeded breaking changes and the checks that detect them", "",
       "Every change below was written by an independent sub-agent that saw only the property text and a scratch worktree, "
       "compiles, passes the pinned suite (5426 stable passes, confirmed by me in a scratch worktree with `tools/baseline_compare.py`), "
       "and comes with a demo that exits 1 with / 0 without it. `tools/run_seeds.py` re-runs the matrix against scratch trees "
       "(`PYTHONPATH=<worktree>/src`, /repo untouched). *first* = result of the first evaluation with the checks as they were at that moment.", "",
       "| seed | prop. | file | needs | detected by (quick tier unless noted) | first |", "|---|---|---|---|---|---|"]
for r in rows:
    out.append(f"| {r[0]} | {r[1]} | `{r[2]}` | {r[3]} | {r[4]} | {r[5]} |")
out += ["", "What each miss changed in the machinery:", ""]
for r in rows:
    if r[5].startswith("missed"):
        out.append(f"* **{r[0]}** ({r[1]}): {r[6]}")
text = "\n".join(out) + "\n"
p = "/verif/DESIGN.md"
s = open(p).read()
b, e = "<!-- seeds:begin -->", "<!-- seeds:end -->"
if b in s:
    s = s[: s.index(b) + len(b)] + "\n" + text + s[s.index(e):]
else:
    s = s.rstrip("\n") + f"\n\n{b}\n{text}{e}\n"
open(p, "w").write(s)
print(len(rows), "seeds")
