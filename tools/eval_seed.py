#!/usr/bin/env python3
"""Evaluate a seeded change: tools/eval_seed.py <name> <property> <src-worktree> <check-id>[:tier] ...

1. copies patch + demo from the sub-agent's worktree into /verif/seeded/<name>/
2. in a fresh scratch worktree of /repo: demo exits 0 without the patch and 1 with it; the pinned
   test suite still passes with the patch (stable_pass of BASELINE.json)
3. applies the patch to /repo, runs the given checks, restores /repo
4. writes meta.json
"""
import json
import os
import shutil
import subprocess
import sys
import time

name, prop, src = sys.argv[1:4]
checks = sys.argv[4:]
out = f"/verif/seeded/{name}"
os.makedirs(out, exist_ok=True)
patch = os.path.join(out, "patch.diff")
if os.path.isdir(src):
    subprocess.run(f"git -C {src} diff > {patch}", shell=True, check=True)
    shutil.copy(os.path.join(src, "demo_break.py"), os.path.join(out, "demo_break.py"))
meta = {"property": prop, "name": name, "ran": []}
wt = f"/tmp/evalwt_{name}"
subprocess.run(f"git -C /repo worktree remove --force {wt} 2>/dev/null; git -C /repo worktree add -q {wt} HEAD", shell=True, check=True)
env = dict(os.environ, PYTHONPATH=f"{wt}/src")
env.pop("GETTSIM_VERIF", None)
try:
  if True:
      def demo():
        p = subprocess.run(["/venv/bin/python", os.path.join(out, "demo_break.py")], cwd=wt, env=env, capture_output=True, text=True, timeout=900)
        return p.returncode, (p.stdout + p.stderr)[-600:]
      rc0, o0 = demo()
      subprocess.run(f"git -C {wt} apply {patch}", shell=True, check=True)
      rc1, o1 = demo()
      meta["demo_exit_without_change"] = rc0
      meta["demo_exit_with_change"] = rc1
      meta["demo_output_with_change"] = o1
      if "--skip-suite" not in checks:
        p = subprocess.run(["python3", "/verif/tools/baseline_compare.py", wt], capture_output=True, text=True)
        meta["suite_with_change"] = p.stdout.strip().splitlines()[:3]
        meta["suite_ok"] = p.returncode == 0
      for c in checks:
        if c.startswith("--"):
            continue
        cid, _, tier = c.partition(":")
        tier = tier or "quick"
        t0 = time.time()
        # the checks analyse the scratch tree (PYTHONPATH precedes the .pth entry of /repo/src); /repo stays untouched
        cenv = dict(os.environ, PYTHONPATH=f"{wt}/src")
        p = subprocess.run(["timeout", "3000", "./check", cid, "--tier", tier], cwd="/verif", capture_output=True, text=True, env=cenv)
        lines = [l for l in p.stdout.splitlines() if not l.startswith("KNOWN-FINDING")]
        meta["ran"].append({"check": cid, "tier": tier, "exit": p.returncode, "seconds": round(time.time() - t0),
                            "violations": [l[:300] for l in lines if l.startswith("VIOLATION") or l.startswith("  what")][:6],
                            "tail": [l[:300] for l in lines[-3:]]})
except Exception as e:
    meta["eval_error"] = repr(e)[:300]
finally:
    subprocess.run(f"git -C /repo worktree remove --force {wt}", shell=True)
meta["detected_by"] = [f"{r['check']}:{r['tier']}" for r in meta["ran"] if r["exit"] == 1]
# a re-evaluation keeps what an earlier evaluation established (suite result, first results, annotations)
old_path = os.path.join(out, "meta.json")
if os.path.exists(old_path):
    old = json.load(open(old_path))
    for k, v in old.items():
        if k not in meta or (k in ("suite_with_change", "suite_ok") and meta.get(k) is None):
            meta[k] = v
    if "first_ran" not in meta and old.get("ran"):
        meta["first_ran"] = old["ran"]
        meta["first_detected_by"] = old.get("detected_by", [])
meta["detected_by_current"] = sorted({x.split(":")[0] for x in meta["detected_by"]})
json.dump(meta, open(os.path.join(out, "meta.json"), "w"), indent=1, ensure_ascii=False)
print(json.dumps({k: v for k, v in meta.items() if k != "demo_output_with_change"}, indent=1, ensure_ascii=False)[:3000])
