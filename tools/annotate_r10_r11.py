#!/usr/bin/env python3
"""one-off: needs / first_evaluation / history of the tenth and eleventh round seeds (kept for the record)"""
import json
import os

CONF = ("patch applied in a scratch worktree of /repo HEAD (tools/eval_seed.py): demo exits 0 without / 1 with the change; "
        "pinned suite: all 5426 stable passes still pass")
A = {
    "s10_c03": ("array inputs in another time unit: the twelve converters rewritten with in-place `*=` / `/=` -- the caller's array is modified (and an integer array cannot take the float result)",
                "missed by C03 -> strengthened (C13)",
                "first evaluation: C03 quick exit 0 (C03 looks at rule columns, the converters are derived functions), C13 quick exit 0 (rulesym rebound `value *= k` like `value = value * k`). "
                "Strengthened: augmented assignment on an array argument is done in place and recorded (ctx.arg_mutations); C13 has the obligation 'a converter does not modify its argument', replayed on the real function with a numpy array."),
    "s10_c07": ("a policy date given as ISO string whose day is <= 12 and differs from the month (`pd.to_datetime(date, dayfirst=True)` reads '2023-07-01' as 7 January)",
                "detected (obligation added while the sub-agent was still working)",
                "C07's string witness (731 ISO strings over two years through the real `_parse_date`) was added during this round, before the seed was evaluated; the check as committed before the round only used datetime.date objects and would have missed it."),
    "s10_c08": ("a person with a disability degree that is not a multiple of ten (e.g. 25, 45): `behinderungsgrad // 10 * 10` is not a key of the Pauschbetrag table",
                "detected", "C08 quick: KeyError guard reachable on the template cone, replayed as a root-level population."),
    "s10_c10": ("date >= 2023-01-01, a pension that is not on the cent grid: `params_key_for_rounding` dropped from the 2023 implementation of bruttorente_m",
                "detected (obligation added while the sub-agent was still working)",
                "C10 'a rounding spec in force for a node must take effect' (unmarked_on_grid) was added during this round before the evaluation; its first version raised a false alarm on the clean tree (pre-2021 ges_rente_m is unmarked but provably on the grid) and was corrected to prove on-grid instead of demanding the mark."),
    "s10_c12": ("a child living in another household than the parent it points to (fg_id fast path drops such children from the parent's family instead of keeping them out by the hh test later)",
                "detected (obligation added while the sub-agent was still working)",
                "fgsym exactness obligation fg_only (members share a family unit only through partner / qualified-child links) was added during this round before the evaluation."),
    "s10_c15": ("group ids >= 100 x number of rows whose members are not stored next to each other (`_compress_group_id` numbers runs of equal ids)",
                "missed -> strengthened (C11)",
                "first evaluation: C15 quick exit 0 (C15 assumes C11 for the aggregation functions), C11 quick exit 0 (symbolic group ids had a small upper bound, below the point where the compression switches on). "
                "Strengthened: group ids up to 10^9 in C11 / C01; C11 quick reports grouped_sum([..],[300,0,300]) etc."),
    "s10_c16": ("Elterngeld with previous-year net income above the statutory income cap (2,770 EUR): the cap on the considered income removed",
                "detected (obligation added while the sub-agent was still working)",
                "the named cap 'considered Elterngeld income <= max_zu_beruecksichtigendes_einkommen' (by cap value over time, with the sibling multiplier) was added to C16 during this round before the evaluation."),
    "s10_c17": ("a household in which Wohngeld priority holds for one needs unit and Kinderzuschlag priority for another (wthh ids by `numpy.where` with the wrong connective)",
                "detected", "C17 quick (exclusion ALG II / Wohngeld per part-household) and C12 quick (wthh definition) both exit 1."),
    "s10_c19": ("policy date between 2022-07-01 and 2022-09-30 and a wage in the transition zone: hand-over between the two dated midijob employee-share rules moved by three months",
                "quick missed, thorough detected -> quick strengthened",
                "first evaluation: C19 quick exit 0 (eight fixed dates), C19 thorough exit 1 at 2022-07-01. Quick now adds both sides of every start/end date of a contribution rule of the current tree: exit 1 in 9 s."),
    "s11_c20": ("a parent / partner pointer of -5 (or any negative number other than -1): the foreign-key check only looks at pointers >= 0",
                "detected", "C20 quick exit 1."),
    "s11_c01": ("members of one family not stored in adjacent rows: bg_id_numpy vectorised with cumsum / maximum.accumulate over runs of equal fg_id",
                "missed (not encodable) -> strengthened",
                "first evaluation: C01 quick exit 0 with 'bg_id_numpy: not encodable (concatenate operand)' and a COVERAGE-LOSS line; the CrossHair bg condition is not in C01's quick list. "
                "Strengthened: numpy.append with scalar operands, maximum/minimum/add.accumulate modelled; C01 quick reports bg_order for four row orders at N=3."),
    "s11_c02": ("a household without Wohngeld priority but with Kinderzuschlag priority, simulated alone vs together with a household that has Wohngeld priority (wthh_id fast path `if not numpy.any(wohngeld_vorrang_bg)`)",
                "detected by C12 and C17; C02 itself exit 3 -> strengthened",
                "first evaluation: C12 quick (wthh_def) and C17 quick exit 1; C02 quick exit 3: CrossHair's harness passes lists, `numpy.asarray(hh_id) * 100` repeats the list there and the counterexample does not reproduce. "
                "Strengthened: separability of wthh as z3 obligation on the real whole-column code (groupsym.wthh_sep); C02 quick exit 1."),
    "s11_c04": ("a missing value (NaN) in a float input and a group sum of (something computed from) that column among the targets: grouped_sum zeroes NaNs in place in the caller's array",
                "missed -> strengthened (concrete witness)",
                "first evaluation: C04 and C11 quick exit 0 -- the encoder is real-valued, `numpy.isnan(column).any()` is false there and the branch dead. "
                "Strengthened: C04's integration witness runs the population with a NaN under target sets with / without a group sum and compares the column and the caller's data (concrete, not a solver verdict)."),
    "s11_c05": ("supplying the yearly variant of a monthly input with cents, as computed by the system: new input check compares the two time units with exact float equality",
                "missed -> strengthened (concrete witness)",
                "first evaluation: C05 quick exit 0 (witness amounts were whole euros, the time-unit variants of inputs were sampled). "
                "Strengthened: witness amounts with x*12/12 != x, other time units of supplied flow inputs always re-supplied; C05 quick exit 1 (ValueError on re-supplying eink_selbst_y)."),
    "s11_c09": ("array form only: `x = arg; x -= ...` updates the argument in place, `max(x, 0) / arg` then divides by the updated array (0/0 = nan where the scalar rule gives 0)",
                "solver found it, replay rejected it (exit 3) -> replay corrected",
                "first evaluation: C09 quick exit 3 -- the model reproduced as nan vs -0.0 and `abs(nan - v) > tol` is false. The replay now compares NaN-ness; C09 quick exit 1."),
    "s11_c11": ("p_id not in ascending order: hand-written `numpy.searchsorted(p_id, p_id_kindergeld_empf)` in a whole-column look-up rule",
                "missed (C11, C02 exit 0; C01 exit 3) -> strengthened",
                "first evaluation: the colsym model of searchsorted counted smaller elements (right for sorted haystacks only); C01's replay let the IndexError of one row order escape. "
                "Strengthened: searchsorted on a haystack not provably ascending is an unconstrained index; a model where one side raises is a violation (C01, C02); C11 has a look-up obligation per whole-column rule. C01, C02, C11 quick exit 1."),
    "s11_c13": ("a float32 column (survey data stored in single precision) summed over a group: grouped_sum casts every dtype narrower than 8 bytes to int",
                "missed -> strengthened (C11)",
                "first evaluation: C13 and C11 quick exit 0 (columns were float64 / int64 / bool / dates only). Strengthened: float32 columns (exact eighths) in C11's definition obligations; C11 quick exit 1. C13 itself is real-valued and does not see storage types."),
    "s11_c18": ("a value exactly on a threshold of a piecewise schedule (e.g. rente_ertragsanteil at 2005 / 2021): shared `searchsorted(..., side='left')` helper makes intervals right-inclusive",
                "harness error (exit 3) -> strengthened",
                "first evaluation: C18 quick exit 3 -- the interval index came back symbolic from the helper and indexing thresholds with +-inf was not encodable. "
                "Strengthened: one path per position for such arrays, non-finite arithmetic under an error guard with replay; C18 quick exit 1 (x=2021, x=2005)."),
    "s12_c20": ("a married couple whose first row has gemeinsam_veranlagt=True and the second False (sn_id_numpy: the contradiction check became one-sided and row-order dependent)",
                "detected", "C20 quick and C12 quick (sn obligations: contradictory flags raise) exit 1."),
    "s12_c15": ("a flat share: two needs units in one Wohngeld part-household, one of them above its own wealth limit (a `_wthh` rule now reads a `_bg` argument)",
                "detected", "C15 quick exit 1 (wohngeld_anspruchsbedingungen_erfüllt_wthh and its consumers, replayed with persons split into units the group does not imply); C17 quick exit 0."),
    "s12_c10": ("a policy date before the first rounding spec of a rule that is already marked for rounding (e.g. kinderzuschl_eink_eltern_m in 2004): `bisect` index -1 wraps to the latest spec",
                "detected", "C10 quick (missing spec <=> KeyError) and C07 quick (rounding parameters vs the independent resolver) exit 1."),
    "s12_c16": ("a child of a single parent who receives more alimony than the advance-payment claim: `max(claim - alimony, 0)` replaced by the plain difference",
                "missed (silently) -> strengthened",
                "first run of C16 quick on the changed tree: exit 3 (a cone value that is constant for one person came back as a concrete array: AttributeError); with that repaired exit 0 -- the target is not inductively non-negative any more, "
                "non-negative for the single person, and BOTH household templates of the quick tier were not encodable (numpy.ceil of the rounding wrapper on a symbolic column) and only listed in the evidence. "
                "Strengthened: ceil/floor on symbolic columns; a target for which no multi-person template could be decided is inconclusive, not discharged. C16 quick exit 1 (1 adult + 3 children, 2019-07-01)."),
    "s12_c03": ("integer inputs with an integer parameter (kindergeld_m = 250 * count: int64 column for a rule declared float) or float32 inputs: `_vectorize_func` hands 'element-wise' rules to production without numpy.vectorize",
                "harness error (exit 3) -> strengthened",
                "first run of C03 quick on the changed tree: exit 3 ('cannot find the numpy.vectorize object'). Strengthened: a rule handed through un-vectorised is analysed as the whole-column call it is, and the production column's dtype "
                "must be of the declared kind (replayed through the API). That obligation also found a genuine defect on the pinned tree (erziehungsgeld_m declared '-> bool', fixed in /repo 7cdcf04). C03 quick exit 1 (12 rules), C01 quick exit 1."),
    "s12_c08": ("a household of six or more persons between 2021-01-01 and 2022-12-31: copy-pasted guard indexes the (not yet existing) heating / climate component tables",
                "detected", "C08 quick exit 1 (KeyError guard reachable on a household template, replayed as a root-level population)."),
}
for name, (needs, first, hist) in A.items():
    p = f"/verif/seeded/{name}/meta.json"
    if not os.path.exists(p):
        continue
    d = json.load(open(p))
    d["needs"], d["first_evaluation"], d["history"], d["confirmed_by_me"] = needs, first, hist, CONF
    json.dump(d, open(p, "w"), indent=1, ensure_ascii=False)
    print(name, d.get("detected_by_current"))
