#!/usr/bin/env python3
"""Run the pinned test suite in a tree (default /repo) and compare with BASELINE.json stable_pass."""
import json, subprocess, sys, os, xml.etree.ElementTree as ET, tempfile
tree = sys.argv[1] if len(sys.argv) > 1 else "/repo"
base = json.load(open("/root/.vp/BASELINE.json"))
x = tempfile.mktemp(suffix=".xml")
env = dict(os.environ); env.pop("GETTSIM_VERIF", None)
env["PYTHONPATH"] = os.path.join(tree, "src")
subprocess.run(["/venv/bin/python", "-m", "pytest", "-q", "-p", "no:cacheprovider", "--timeout=900",
                "--continue-on-collection-errors", "-n", "14", f"--junitxml={x}"], cwd=tree, env=env,
               stdout=subprocess.DEVNULL, stderr=subprocess.DEVNULL)
passed = set()
for tc in ET.parse(x).getroot().iter("testcase"):
    if not any(c.tag in ("failure", "error", "skipped") for c in tc):
        passed.add(f"{tc.get('classname')}::{tc.get('name')}")
want = set(base["stable_pass"])
missing = sorted(want - passed)
print(f"stable_pass={len(want)} passed_now={len(passed)} missing={len(missing)}")
for m in missing[:20]: print("  MISSING", m)
sys.exit(1 if missing else 0)
