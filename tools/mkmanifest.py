#!/usr/bin/env python3
"""Generate MANIFEST.json from the per-property table below (claimed = gsv/checks/<id>.py exists)."""
import json
import os

HERE = os.path.dirname(os.path.dirname(os.path.abspath(__file__)))

TRUST = ("Trusted: z3 5.1.0 verdicts; rulesym's re-implementation of the Python/numpy scalar semantics "
         "(guarded per run by concrete translator validation and by replay of every model on the real code); "
         "floats as exact reals over the stored doubles unless the (1+delta) model is stated; bounds as in evidence.")

P = {
    "C01": dict(level="other", tech="bounded SMT over symbolic columns (z3): the real grouping / aggregation / join source executed by rulesym+colsym for all N! row orders, N<=3/4 (CrossHair as second engine at N=3)",
                text="For N<=3 (quick) / 4 (thorough) rows and all row permutations the real grouping, aggregation, pointer-sum and join code is executed symbolically (rulesym/colsym + z3 on groupings.py, aggregation_numpy, shared; CrossHair as a second engine at N=3) and proved order-equivariant; the dtype-from-first-row effect of numpy.vectorize is decided per rule by a typed-path z3 query. Bounded; pandas-level result assembly is outside.",
                ref="DESIGN.md#c01"),
    "C02": dict(level="other", tech="bounded SMT two-population harness (A alone vs A++B) on the real column code (rulesym/colsym + z3 over reals, plus a Float64 round-to-nearest z3 re-check of rows whose term mentions a value of B; CrossHair second engine)",
                text="A (<=2 rows) alone vs A++B (B<=2 rows, disjoint ids): real grouping/aggregation/join code symbolically executed; results on A equal / induce the same partition, no derived id shared across populations; relabelling with injective sign-preserving maps. Where the z3 term of a row of A mentions a value of B at all, the same claim is decided bit for bit over Float64 (ids enumerated, values symbolic, 0.01<=|v|<=1e9) and a model is replayed on the real function. Bounded.",
                ref="DESIGN.md#c02"),
    "C03": dict(level="other", tech="typed symbolic execution of every active rule (z3): dynamic return type per path vs numpy.vectorize otypes-from-first-row",
                text="Every scalar rule is executed symbolically with a dynamic Python type per path; z3 decides whether two valid rows exist such that the dtype inferred from the first row cannot hold the second row's value (truncation/coercion), and whether a path returns a wider type than declared. The value equation is proved through the wrapper production really calls, and the production column's dtype must be of the declared kind wherever it is determinate. Each model is replayed through the real compute_taxes_and_transfers in both row orders.",
                ref="DESIGN.md#c03"),
    "C04": dict(level="other", tech="symbolic node-definition equivalence (z3) across target sets on graphs built by the real loader",
                text="For pairs of target sets the real loader builds both graphs; for every common node z3 proves equality of its symbolic definition (same callable semantics, same parents) for all parent values; by induction over the DAG values agree for all data. Result assembly/debug are outside the solver claim.",
                ref="DESIGN.md#c04"),
    "C05": dict(level="other", tech="symbolic node-definition equivalence (z3) under override by a data column",
                text="With node n supplied as data, every other node's definition is proved equal (z3) to its definition without the override, under the hypothesis n = def(n)(parents) where provenance changes (time-unit siblings). Integration witnesses through the real API (not the deciding step): round trips of sampled nodes, and every overridable rounded rule supplied with on-grid amounts - one a z3 Float64 model on which the rounding formula is not idempotent - must reach a probe consumer bit for bit.",
                ref="DESIGN.md#c05"),
    "C07": dict(level="other", tech="concolic date exploration of the real loader + z3 coverage query over the calendar + independent reference resolver",
                text="The real set_up_policy_environment is run under a recording date; z3 proves the recorded regions cover every calendar day of the window; per region the environment is compared with an independent resolver of the YAML dialect and the active function set with the registered validity intervals.",
                ref="DESIGN.md#c07"),
    "C08": dict(level="other", tech="symbolic execution of every rule reachable from the default targets per date class; z3 reachability of error guards (missing key/index, NotImplementedError, division by zero)",
                text="Per date class >= 2015 the real DAG is built, roots are compared with the documented inputs, and every reachable rule is executed symbolically with havoc'd parents; each error guard must be unsat under the valid-population predicate, first locally, then on the single-person cone, then on household templates (up to 2 adults + 10 children). sat guards are replayed through the real API.",
                ref="DESIGN.md#c08"),
    "C09": dict(level="translation_validation", tech="translation validation: rulesym executes original and rewritten AST, z3 decides inequivalence; bounded grammar enumeration of programs",
                text="For every internal function (once per parameter variant inside its validity period) and every generated program of the documented restricted grammar (depth<=2/3, incl. chained comparisons with every operator pair) the real _make_vectorizable_ast output is executed symbolically on arrays of length 2 and compared position-wise with the original on scalars; z3 refutes any differing input unless the rewrite fails loudly. Models are replayed on the real make_vectorizable output.",
                ref="DESIGN.md#c09"),
    "C10": dict(level="other", tech="symbolic execution of the real rounding wrapper vs raw-YAML spec (z3, integer grid reasoning)",
                text="For every rule with a rounding key x date class the real wrapper from _add_rounding_to_functions is executed on a free real and z3 proves grid membership, direction, |error| < base and offset against the spec read independently from YAML (wrappers taken from per-rule calls and from one production-shaped call over all functions, both orders); derived time-unit/aggregate nodes are proved not to round again.",
                ref="DESIGN.md#c10"),
    "C11": dict(level="other", tech="bounded SMT over symbolic columns: real aggregation/join source vs textbook definition, N<=3/4",
                text="The real grouped_*, sum_by_p_id, join_numpy source is executed on symbolic columns (library calls modelled, models conformance-tested each run) and z3 proves equality with the mathematical definition for all ids/values at N<=3 (quick) / 4 (thorough), float32 columns included; the whole-column look-up rules are proved to read exactly the row their pointer names; spec precedence and result types by node-definition equivalence on real loader graphs.",
                ref="DESIGN.md#c11"),
    "C12": dict(level="other", tech="rulesym + z3 on the real *_id_numpy functions (guarded dictionaries/lists for the Python containers) against pairwise unit obligations, N<=3 quick / 4 thorough / 5 where affordable; per parameter variant; CrossHair second engine at N=3",
                text="The real *_id_numpy functions are executed symbolically (rulesym: Python dict/list code through guarded containers; z3 decides) on symbolic pointer structures and must satisfy the pairwise obligations of the unit definitions, nesting and id non-collision for every row order, one obligation per order; encoder validated against the real function on random structures each run; every model replayed. Bounded N<=3 quick / 4 thorough (eg/sn/bg/wthh also 5). CrossHair confirms the non-fg conditions independently at N=3.",
                ref="DESIGN.md#c12"),
    "C13": dict(level="other", tech="symbolic execution of the 12 converters (exact reals + (1+delta) FP model) and of the loader wiring of time-unit siblings (z3)",
                text="z3 proves each real converter equals multiplication by the documented factor ratio, round trips within 5*2^-53 relative under the rounding-error model, and for every time-suffixed name that the real loader derives, sibling = source x factor (on float and on int64 columns) and commutation with group sums (N<=3).",
                ref="DESIGN.md#c13"),
    "C15": dict(level="other", tech="two-copy symbolic execution per group-suffixed rule with inductively derived group-constancy facts (z3)",
                text="Inductive pass over the real DAG per date class: a node is group-constant iff z3 refutes two members of one group, sharing all group-constant arguments and differing in all others, getting different values. Failing queries are replayed on the real API.",
                ref="DESIGN.md#c15"),
    "C16": dict(level="other", tech="Houdini-style inductive sign/finiteness invariants over the real DAG + deeper symbolic slices (z3)",
                text="Greatest fixpoint of candidate facts (finite, >=0, caps) proved node by node from parents' facts by z3 over the symbolically executed rule source; targets that lose a fact locally are re-proved on a deeper slice; remaining models are replayed from root inputs.",
                ref="DESIGN.md#c16"),
    "C17": dict(level="other", tech="bounded SMT over a symbolic population (N<=3/4) on the real priority-rule slice incl. real wthh_id and grouped_any source",
                text="The benefit-priority slice is evaluated symbolically from the real rule sources for N persons with symbolic group membership; z3 refutes any person with a forbidden benefit combination, split needs units across part-households, or Kinderzuschlag below need.",
                ref="DESIGN.md#c17"),
    "C18": dict(level="other", tech="symbolic execution of the real piecewise_polynomial per interval path vs schedule rebuilt from raw YAML (z3 nonlinear real arithmetic)",
                text="Per schedule x change date z3 refutes any real argument where the real evaluation differs from the mathematical schedule by more than eps; tax and soli shape claims (monotone, continuous via Lipschitz, convex, zero below allowance, cap) proved for all reals; the rates_multiplier branch for a symbolic multiplier in [0,2]; thresholds +-1ulp evaluated concretely.",
                ref="DESIGN.md#c18"),
    "C19": dict(level="other", tech="two-copy symbolic execution of the contribution sub-DAG in the wage (z3 linear real arithmetic), rounding wrapper included",
                text="The real contribution rules from bruttolohn_m to the four employee (and employer) contribution nodes are composed symbolically per date class; z3 proves non-negativity, monotonicity in the wage, zero for marginal employment, constancy above the ceiling, agreement at the upper transition-zone boundary and employee+employer=total, modulo eps=1e-6.",
                ref="DESIGN.md#c19"),
    "C20": dict(level="other", tech="bounded SMT over symbolic columns through the real input checks with a pandas shim; CrossHair on sn_id_numpy; FP/bit-vector coercion lemma",
                text="The real _fail_if_* and type conversion functions are executed on symbolic columns (N<=3): fault => raises and no fault => accepts, for every enumerated fault class; contradictory joint-assessment flags raise in every row order (CrossHair); lossless coercion lemma per element.",
                ref="DESIGN.md#c20"),
}

NA = {
    "C06": "Reform locality is about object identity/aliasing between two whole API runs (shared mutable parameter objects, cached environments); a symbolic executor hands each rule exactly the params it names, so any solver formulation is vacuous. Needs concrete differential runs, not a solver (DESIGN.md section 4).",
    "C14": "Purity/history independence quantifies over sequences of API calls mutating interpreter state (module globals rebound by exec, registries, pandas objects); there is no input space for a solver to range over and the code involved (pandas/dags/importlib) cannot be encoded within reach (DESIGN.md section 4).",
}

PENDING = "check not built yet in this round (planned, see DESIGN.md); not claimed until its check lands"


def main():
    checks = []
    na = []
    for pid in [f"C{i:02d}" for i in range(1, 21)]:
        if pid in NA:
            na.append({"property_id": pid, "reason": NA[pid]})
            continue
        if not os.path.exists(os.path.join(HERE, "gsv", "checks", f"{pid.lower()}.py")):
            na.append({"property_id": pid, "reason": PENDING})
            continue
        p = P[pid]
        checks.append({
            "property_id": pid,
            "quick_cmd": f"./check {pid} --tier quick",
            "thorough_cmd": f"./check {pid} --tier thorough",
            "evidence_file": f"/verif/evidence/{pid}.json",
            "replay_cmd_template": f"./check {pid} --replay {{path}}",
            "engine": "gsv",
            "level_claimed": {"category": p["level"], "text": p["text"], "design_ref": p["ref"]},
            "level_note": TRUST,
            "technique": p["tech"],
        })
    m = {
        "version": 1,
        "setup_cmd": "./setup.sh",
        "hooks": {
            "guard": "GETTSIM_VERIF",
            "enable": "no source hooks are needed; checks import /repo/src through /venv and read the live function objects",
            "baseline_off_cmd": "cd /repo && /venv/bin/python -m pytest -ra -q -p no:cacheprovider --timeout=900 --continue-on-collection-errors -n 14",
            "source_commits": [],
            "add_only": True,
        },
        "engines": [{"name": "gsv", "path": "/verif/gsv", "serves_properties": [c["property_id"] for c in checks],
                     "kind_free_text": "symbolic execution of the real Python source to z3 (rulesym/colsym), CrossHair harnesses, concolic date exploration"}],
        "checks": checks,
        "not_applicable": na,
        "notes": "Solver-based checking of the real code; every verdict is 'unsat within the stated bound'. See DESIGN.md.",
    }
    with open(os.path.join(HERE, "MANIFEST.json"), "w") as fh:
        json.dump(m, fh, indent=1, ensure_ascii=False)
    print("claimed:", [c["property_id"] for c in checks])


if __name__ == "__main__":
    main()
