#!/usr/bin/env python3
"""Round 13: needs / first evaluation / history of the twelve seeded changes s13_* (written once, after tools/eval_seed.py
and tools/run_seeds.py)."""
import json

CONF = ("patch applied in a scratch worktree of /repo HEAD (tools/eval_seed.py): demo exits 0 without / 1 with the change; "
        "pinned suite: all 5426 stable passes still pass")
A = {
 "s13_c01": ("rows not sorted by p_id and a pointer column (p_id_kindergeld_empf ...) whose target's row position differs from the rank of its p_id: "
             "`join_numpy` rewritten with argsort + searchsorted returns the rank, the mapping back through the sorter is missing",
             "detected", "C01 quick exit 1 on the first run (column obligations on join_numpy under permutation and the integration witness with permuted rows)."),
 "s13_c02": ("a float column summed by group, an unrelated household with a non-round amount sorted before A, and A exactly on a comparison limit: "
             "`grouped_sum` as one cumsum over the whole table, group sum = difference of running totals ((T + a) - T in Float64)",
             "missed (exit 0, grouped_sum not encodable: COVERAGE-LOSS only) -> strengthened",
             "first run: C02 and C11 quick exit 0 -- the rewritten code was not encodable (numpy.diff(prepend=), boolean-mask selection, empty_like, fancy assignment) "
             "and, once encodable, separable over the reals. Strengthened: colsym models for those constructs (mask selection = forked compaction) and a second, "
             "bit-precise obligation (gsv/fpcheck.py: the z3 term rebuilt over Float64 RNE, ids enumerated, values symbolic) for every row of A whose term mentions a value "
             "of B; the Float64 model replays bit for bit on the real function. C02 quick exit 1."),
 "s13_c05": ("rounding=True, a supplied column overriding a rule with a sub-euro floor/ceil rounding spec (elterngeld_m), an amount like 1043.81 for which "
             "0.01 * floor(x / 0.01) != x in Float64, and a consumer downstream: the interface 'snaps' supplied columns to the rule's grid",
             "missed (exit 0) -> strengthened",
             "first run: C05 quick exit 0 (graph-level obligations and round trips of the witness household see nothing: its Elterngeld is 0). Strengthened: for every "
             "overridable rule with a rounding spec in force a column of on-grid amounts -- one a z3 Float64 model of `R(x) != x` for the spec's base/direction/offset -- "
             "is supplied and a probe consumer (`def gsv_probe(<n>): return <n>`) must get it back bit for bit with rounding on and off. C05 quick exit 1."),
 "s13_c07": ("a date in a leap year after 28 February that is the day before the anniversary of a rentenwert change (30 June 1996 ... 2024): "
             "`vorjahr` look-up by timedelta(365 * years) instead of the same calendar day",
             "detected", "C07 quick exit 1 on the first run (DateProbe regions vs the reference resolver: rentenwert_vorjahr at 2008-06-30 ...)."),
 "s13_c09": ("a chained comparison with two different operators (lo <= x < hi) and an input exactly on the bound whose operator is replaced: new `visit_Compare` "
             "rewrites chains to logical_and but reuses the first operator for every link; the only real rule with mixed chains (_lohnst_m) is continuous there",
             "missed (exit 0) -> strengthened",
             "first run: C09 quick exit 0 -- the real rules agree numerically at the bounds and the program grammar had no chained comparisons. Strengthened: grammar "
             "group 9, chains with every ordered pair of operators (and three-link chains) in if / else-less if / conditional expressions; on the pinned tree an untouched "
             "chain fails loudly in array form (allowed), on the seeded tree 18 programs differ silently. C09 quick exit 1."),
 "s13_c10": ("a policy date before the first dated rounding entry of a column whose rule is active then (kinderzuschl_eink_eltern_m before 2005 ...): bisect - 1 = -1 "
             "picks the newest spec instead of none",
             "detected", "C10 quick exit 1 on the first run (spec in force per date vs the YAML; 'no spec at that date but no error')."),
 "s13_c11": ("a group id >= 2**20 and a group whose rows are not adjacent: groups enumerated by run length for large ids",
             "detected", "C11 quick exit 1 on the first run (aggregate definitions with ids up to 1e9 and non-contiguous groups)."),
 "s13_c12": ("three generations in one household, the middle person under 25 recorded as p_id_elternteil_2 of the own child while p_id_elternteil_1 is filled too: "
             "the 'has children' set is built from elternteil_1 where present, else elternteil_2",
             "harness error (exit 3: CrossHair counterexamples do not reproduce, fg_id_numpy not encodable) -> strengthened",
             "first run: C12 quick exit 3 -- `set(array.tolist())` of symbolic ids and `x not in <that set>` were not encodable, so the z3 obligations on fg_id_numpy were "
             "skipped and only non-reproducing CrossHair models remained (inconclusive). Strengthened: symbolic sets from lists of symbolic values, membership with a "
             "concrete left side. The z3 obligation fg_only (shared family unit only through partner / qualified-child links) then fails for N=3 and replays. C12 quick exit 1."),
 "s13_c13": ("an input supplied in a non-canonical time unit with integer dtype (bruttolohn_y as int64) and a value that is not a multiple of the factor: "
             "the derived converter casts its result back to the source column's dtype",
             "harness error (exit 3: getattr with symbolic args) -> strengthened",
             "first run: C13 quick exit 3 (`getattr(x, 'dtype', None)` not modelled); once modelled the float-column obligations still hold. Strengthened: getattr with a "
             "literal name, astype(dtype, copy=), and every derived function of the real factory is also applied to an int64 column (ids 0..1e7): result = x * factor as float. "
             "C13 quick exit 1 (91.0 instead of 91.3125)."),
 "s13_c16": ("from 2023-07-01, a Midijob wage and eight or more children under 25: the cap of four child discounts is lost in the Midijob variant of the care-insurance rate",
             "detected", "C16 quick exit 1 on the first run (non-negativity of ges_pflegev_beitr_arbeitnehmer_m on valid households with up to ten children)."),
 "s13_c17": ("a household with several Einstandsgemeinschaften: all adults of one retired, a non-retired adult in another; Grundsicherung gates on the eg-level flag, "
             "ALG II / Wohngeld / Kinderzuschlag on the household-level flag",
             "detected", "C17 quick exit 1 on the first run (exclusion obligation over the symbolic frontier of the priority rules)."),
 "s13_c19": ("a wage exactly equal to the Midijob upper limit: in_gleitzone uses < and regulär_beschäftigt uses > (two sites), the wage is in no regime and health / care "
             "contributions are 0",
             "detected", "C19 quick exit 1 on the first run (monotonicity and meeting at the upper boundary, exact boundaries as symbolic wages)."),
}
for n, (needs, first, hist) in A.items():
    p = f"/verif/seeded/{n}/meta.json"
    m = json.load(open(p))
    m["needs"], m["first_evaluation"], m["history"], m["confirmed_by_me"] = needs, first, hist, CONF
    if "first_ran" not in m:
        m["first_ran"] = m.get("ran", [])
    if first == "detected" and not m.get("detected_by_current"):
        m["detected_by_current"] = sorted({r["check"] for r in m["ran"] if r["exit"] == 1})
    m["detected_by"] = [f"{r['check']}:{r['tier']}" for r in m["ran"] if r["exit"] == 1]
    json.dump(m, open(p, "w"), indent=1, ensure_ascii=False)
    print(n, m.get("detected_by_current"))
