#!/bin/sh
# Build the overlay venv used by every check: /venv's packages (repo deps, /repo/src on path)
# plus z3-solver, crosshair-tool, cvc5, jsonschema from the offline wheelhouse. No network.
set -e
cd "$(dirname "$0")"
V=.venv
if [ ! -x "$V/bin/python" ] || ! "$V/bin/python" -c "import z3, crosshair, _gettsim" 2>/dev/null; then
    rm -rf "$V"
    /venv/bin/python -m venv "$V"
    SP=$("$V/bin/python" -c "import site; print(site.getsitepackages()[0])")
    printf "import site; site.addsitedir('/venv/lib/python3.12/site-packages')\n" > "$SP/zz_repo_venv.pth"
    PIP_NO_INDEX=1 "$V/bin/pip" install -q --no-index --find-links /opt/veriftools/wheels \
        z3-solver crosshair-tool cvc5 jsonschema
fi
"$V/bin/python" -c "import z3, crosshair, cvc5, _gettsim, jsonschema; print('setup ok: z3', z3.get_version_string())"
